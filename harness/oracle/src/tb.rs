//! Retrograde tablebases for K+X v K (X in Q,R,B,N,P, with promotion sub-tables)
//! and an exhaustive forced-mate solver. Distances are in plies.

use crate::pos::*;

#[derive(Clone, Copy, PartialEq, Eq, Debug)]
pub enum Val {
    Illegal,
    Unknown,
    Draw,
    /// side to move mates in n plies (n odd)
    Win(u16),
    /// side to move is mated in n plies (n even, 0 = checkmated now)
    Loss(u16),
}

const KINDS: [u8; 5] = [QUEEN, ROOK, BISHOP, KNIGHT, PAWN];

fn kind_idx(k: u8) -> usize {
    KINDS.iter().position(|&x| x == k).unwrap()
}

/// White is the strong side in the stored tables; Black-strong positions are
/// probed through the colour mirror.
pub struct Tablebase {
    vals: Vec<Val>,
    pub max_win: u16,
    pub legal_positions: usize,
}

const N: usize = 5 * 65 * 64 * 64 * 2;

fn index(kind_i: usize, xsq: usize, wk: usize, bk: usize, wtm: bool) -> usize {
    ((((kind_i * 65 + xsq) * 64 + wk) * 64 + bk) * 2) + wtm as usize
}

fn decode(idx: usize) -> (usize, usize, usize, usize, bool) {
    let wtm = idx % 2 == 1;
    let r = idx / 2;
    let bk = r % 64;
    let r = r / 64;
    let wk = r % 64;
    let r = r / 64;
    let xsq = r % 65;
    let kind_i = r / 65;
    (kind_i, xsq, wk, bk, wtm)
}

fn pos_of(idx: usize) -> Option<Pos> {
    let (ki, xsq, wk, bk, wtm) = decode(idx);
    if wk == bk || xsq == wk || xsq == bk {
        return None;
    }
    if xsq == 64 && ki != 0 {
        return None;
    }
    let mut p = Pos::empty();
    p.b[wk] = code(true, KING);
    p.b[bk] = code(false, KING);
    if xsq < 64 {
        p.b[xsq] = code(true, KINDS[ki]);
    }
    p.wtm = wtm;
    if !p.is_legal_position() {
        return None;
    }
    Some(p)
}

/// Index of a position with material K+X v K (white strong) or K v K; ep/clock ignored.
fn index_of(p: &Pos) -> Option<usize> {
    let mut wk = None;
    let mut bk = None;
    let mut x = None;
    for s in 0..64usize {
        let c = p.b[s];
        if c == EMPTY {
            continue;
        }
        if c == code(true, KING) {
            wk = Some(s);
        } else if c == code(false, KING) {
            bk = Some(s);
        } else if is_white(c) && x.is_none() {
            x = Some((s, kind(c)));
        } else {
            return None;
        }
    }
    let (wk, bk) = (wk?, bk?);
    Some(match x {
        Some((s, k)) => index(kind_idx(k), s, wk, bk, p.wtm),
        None => index(0, 64, wk, bk, p.wtm),
    })
}

impl Tablebase {
    pub fn build(threads: usize) -> Tablebase {
        let threads = threads.max(1);
        // 1. legality + successor lists (CSR)
        let chunk = (N + threads - 1) / threads;
        let mut parts: Vec<(Vec<u8>, Vec<u32>, Vec<u32>)> = Vec::new();
        std::thread::scope(|s| {
            let hs: Vec<_> = (0..threads)
                .map(|t| {
                    s.spawn(move || {
                        let lo = t * chunk;
                        let hi = ((t + 1) * chunk).min(N);
                        let mut flags = Vec::with_capacity(hi - lo); // 0 illegal, 1 legal, 2 legal+in check
                        let mut counts = Vec::with_capacity(hi - lo);
                        let mut succ = Vec::new();
                        for idx in lo..hi {
                            match pos_of(idx) {
                                None => {
                                    flags.push(0u8);
                                    counts.push(0u32);
                                }
                                Some(p) => {
                                    flags.push(if p.in_check(p.wtm) { 2 } else { 1 });
                                    let l = p.legal();
                                    counts.push(l.len() as u32);
                                    for (_, n) in l {
                                        succ.push(index_of(&n).expect("successor outside table") as u32);
                                    }
                                }
                            }
                        }
                        (flags, counts, succ)
                    })
                })
                .collect();
            for h in hs {
                parts.push(h.join().unwrap());
            }
        });
        let mut flags = Vec::with_capacity(N);
        let mut counts: Vec<u32> = Vec::with_capacity(N);
        let mut succ: Vec<u32> = Vec::new();
        for (f, c, s) in parts {
            flags.extend(f);
            counts.extend(c);
            succ.extend(s);
        }
        let mut vals = vec![Val::Illegal; N];
        let mut start = Vec::with_capacity(N + 1);
        let mut acc = 0u32;
        for &c in &counts {
            start.push(acc);
            acc += c;
        }
        start.push(acc);
        assert_eq!(acc as usize, succ.len());

        let mut legal_positions = 0;
        for idx in 0..N {
            if flags[idx] != 0 {
                legal_positions += 1;
                vals[idx] = if counts[idx] == 0 {
                    if flags[idx] == 2 {
                        Val::Loss(0)
                    } else {
                        Val::Draw
                    }
                } else {
                    Val::Unknown
                };
            }
        }
        // 2. iterate distances
        let mut n: u16 = 1;
        let mut max_win = 0;
        loop {
            let mut newly: Vec<(usize, Val)> = Vec::new();
            std::thread::scope(|s| {
                let hs: Vec<_> = (0..threads)
                    .map(|t| {
                        let vals = &vals;
                        let start = &start;
                        let succ = &succ;
                        s.spawn(move || {
                            let lo = t * chunk;
                            let hi = ((t + 1) * chunk).min(N);
                            let mut out = Vec::new();
                            for idx in lo..hi {
                                if vals[idx] != Val::Unknown {
                                    continue;
                                }
                                let ss = &succ[start[idx] as usize..start[idx + 1] as usize];
                                if n % 2 == 1 {
                                    if ss.iter().any(|&x| vals[x as usize] == Val::Loss(n - 1)) {
                                        out.push((idx, Val::Win(n)));
                                    }
                                } else if ss.iter().all(|&x| matches!(vals[x as usize], Val::Win(_))) {
                                    out.push((idx, Val::Loss(n)));
                                }
                            }
                            out
                        })
                    })
                    .collect();
                for h in hs {
                    newly.extend(h.join().unwrap());
                }
            });
            if newly.is_empty() {
                break;
            }
            for (i, v) in newly {
                if let Val::Win(k) = v {
                    max_win = max_win.max(k);
                }
                vals[i] = v;
            }
            n += 1;
        }
        for v in vals.iter_mut() {
            if *v == Val::Unknown {
                *v = Val::Draw;
            }
        }
        Tablebase {
            vals,
            max_win,
            legal_positions,
        }
    }

    /// Value for the side to move; None when the material is outside the tables.
    pub fn probe(&self, p: &Pos) -> Option<Val> {
        let has_black_extra = p.b.iter().any(|&c| is_black(c) && kind(c) != KING);
        let q = if has_black_extra { p.mirror() } else { p.clone() };
        let idx = index_of(&q)?;
        match self.vals[idx] {
            Val::Illegal => None,
            v => Some(v),
        }
    }

    /// All legal white-strong positions with the extra piece of `kind` (0 = bare kings).
    pub fn positions(&self, kind: u8) -> impl Iterator<Item = (Pos, Val)> + '_ {
        let (ki, bare) = if kind == 0 { (0, true) } else { (kind_idx(kind), false) };
        let lo = index(ki, 0, 0, 0, false);
        let hi = index(ki, 64, 63, 63, true) + 1;
        (lo..hi).filter_map(move |idx| {
            let (_, xsq, ..) = decode(idx);
            if (xsq == 64) != bare {
                return None;
            }
            match self.vals[idx] {
                Val::Illegal => None,
                v => Some((pos_of(idx).unwrap(), v)),
            }
        })
    }

    /// Longest win (in plies) among positions with the given extra piece, side to move wins.
    pub fn longest_win(&self, kind: u8) -> u16 {
        self.positions(kind)
            .filter_map(|(_, v)| if let Val::Win(n) = v { Some(n) } else { None })
            .max()
            .unwrap_or(0)
    }
}

// ------------------------------------------------------------------ solver

/// Can the side to move force checkmate within `plies` plies (1, 3, 5, ...)?
/// Entering a position for which `drawn` holds is a draw for both sides.
pub fn forced_mate(p: &Pos, plies: u32, drawn: &dyn Fn(&Pos) -> bool) -> bool {
    if plies == 0 {
        return false;
    }
    for (_, s) in p.legal() {
        if drawn(&s) {
            continue;
        }
        if lost_within(&s, plies - 1, drawn) {
            return true;
        }
    }
    false
}

/// Is the side to move checkmated now or unable to avoid mate within `plies` plies?
pub fn lost_within(s: &Pos, plies: u32, drawn: &dyn Fn(&Pos) -> bool) -> bool {
    let replies = s.legal();
    if replies.is_empty() {
        return s.in_check(s.wtm);
    }
    if plies < 2 {
        return false;
    }
    for (_, t) in replies {
        if drawn(&t) {
            return false;
        }
        if !forced_mate(&t, plies - 1, drawn) {
            return false;
        }
    }
    true
}

/// Smallest odd n <= max_plies such that the side to move forces mate within n plies.
pub fn mate_distance(p: &Pos, max_plies: u32, drawn: &dyn Fn(&Pos) -> bool) -> Option<u32> {
    let mut n = 1;
    while n <= max_plies {
        if forced_mate(p, n, drawn) {
            return Some(n);
        }
        n += 2;
    }
    None
}

/// First moves after which the opponent is mated within `plies - 1` plies.
pub fn mate_preserving_moves(p: &Pos, plies: u32, drawn: &dyn Fn(&Pos) -> bool) -> Vec<Mv> {
    p.legal()
        .into_iter()
        .filter(|(_, s)| !drawn(s) && lost_within(s, plies.saturating_sub(1), drawn))
        .map(|(m, _)| m)
        .collect()
}
