//! Validation of the reference model against numbers that come from neither code base.

use crate::pos::*;
use crate::tb::Tablebase;

pub const PERFT_SUITE: &[(&str, &str, &[u64])] = &[
    (
        "startpos",
        "rnbqkbnr/pppppppp/8/8/8/8/PPPPPPPP/RNBQKBNR w KQkq - 0 1",
        &[20, 400, 8902, 197281, 4865609],
    ),
    (
        "kiwipete",
        "r3k2r/p1ppqpb1/bn2pnp1/3PN3/1p2P3/2N2Q1p/PPPBBPPP/R3K2R w KQkq - 0 1",
        &[48, 2039, 97862, 4085603],
    ),
    (
        "pos3",
        "8/2p5/3p4/KP5r/1R3p1k/8/4P1P1/8 w - - 0 1",
        &[14, 191, 2812, 43238, 674624],
    ),
    (
        "pos4",
        "r3k2r/Pppp1ppp/1b3nbN/nP6/BBP1P3/q4N2/Pp1P2PP/R2Q1RK1 w kq - 0 1",
        &[6, 264, 9467, 422333],
    ),
    (
        "pos5",
        "rnbq1k1r/pp1Pbppp/2p5/8/2B5/8/PPP1NnPP/RNBQK2R w KQ - 1 8",
        &[44, 1486, 62379, 2103487],
    ),
    (
        "pos6",
        "r4rk1/1pp1qppp/p1np1n2/2b1p1B1/2B1P1b1/P1NP1N2/1PP1QPPP/R4RK1 w - - 0 10",
        &[46, 2079, 89890, 3894594],
    ),
];

/// Returns (name, passed, detail) for each validation item. `max_depth` caps the perft depth used.
pub fn perft_selftest(max_depth: usize) -> Vec<(String, bool, String)> {
    let mut out = Vec::new();
    std::thread::scope(|s| {
        let hs: Vec<_> = PERFT_SUITE
            .iter()
            .map(|(name, fen, counts)| {
                s.spawn(move || {
                    let p = Pos::from_fen(fen).unwrap();
                    let mut r = Vec::new();
                    for (i, &c) in counts.iter().enumerate().take(max_depth) {
                        let got = p.perft(i as u32 + 1);
                        r.push((
                            format!("perft {} depth {}", name, i + 1),
                            got == c,
                            format!("expected {} got {}", c, got),
                        ));
                    }
                    // mirrored position must give identical counts
                    let m = p.mirror();
                    let d = counts.len().min(max_depth).min(3);
                    let got = m.perft(d as u32);
                    r.push((
                        format!("perft mirror {} depth {}", name, d),
                        got == counts[d - 1],
                        format!("expected {} got {}", counts[d - 1], got),
                    ));
                    r
                })
            })
            .collect();
        for h in hs {
            out.extend(h.join().unwrap());
        }
    });
    out
}

pub fn tb_selftest(tb: &Tablebase) -> Vec<(String, bool, String)> {
    let mut out = Vec::new();
    // published maxima: KQK mate in 10 moves, KRK mate in 16 moves, KPK mate in 28 moves
    for (k, name, plies) in [(QUEEN, "KQK", 19u16), (ROOK, "KRK", 31), (PAWN, "KPK", 55)] {
        let got = tb.longest_win(k);
        out.push((
            format!("tablebase longest win {}", name),
            got == plies,
            format!("expected {} plies got {}", plies, got),
        ));
    }
    for (k, name) in [(BISHOP, "KBK"), (KNIGHT, "KNK")] {
        let got = tb.longest_win(k);
        out.push((
            format!("tablebase {} has no wins", name),
            got == 0,
            format!("longest win {}", got),
        ));
    }
    out
}
