//! Independent reference model of the rules of chess.
//!
//! Shares no code and no representation with weechess: 8x8 mailbox array, ray
//! walking square by square, legality by make-move-then-"is my king attacked".
//! This crate is the trusted base of the lock-step explorer; it is validated
//! against published perft numbers and tablebase facts (see `selftest`).

pub mod pgn;
pub mod pos;
pub mod san;
pub mod selftest;
pub mod tb;

pub use pos::*;
