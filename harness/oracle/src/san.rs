//! Standard algebraic notation: an independent writer (all admissible spellings)
//! and an independent reader (for the opening-book corpus).

use crate::pos::*;

/// Core spellings (no check suffix) that denote `m` unambiguously among `legal`.
/// The first element is the minimal (FIDE) spelling.
pub fn core_spellings(m: &Mv, legal: &[(Mv, Pos)]) -> Vec<String> {
    let mut out = Vec::new();
    if m.castle == 1 {
        return vec!["O-O".to_string()];
    }
    if m.castle == 2 {
        return vec!["O-O-O".to_string()];
    }
    let dest = sq_name(m.to);
    let ff = (b'a' + m.from % 8) as char;
    let fr = (b'1' + m.from / 8) as char;
    if m.piece == PAWN {
        let mut base = String::new();
        if m.capture != 0 {
            base.push(ff);
            base.push('x');
        }
        base.push_str(&dest);
        if m.promo != 0 {
            let l = kind_letter(m.promo);
            out.push(format!("{}={}", base, l));
            out.push(format!("{}{}", base, l));
        } else {
            out.push(base);
        }
        return out;
    }
    let letter = kind_letter(m.piece);
    let x = if m.capture != 0 { "x" } else { "" };
    // other legal moves of the same kind of piece to the same destination
    let rivals: Vec<&Mv> = legal
        .iter()
        .map(|(o, _)| o)
        .filter(|o| o.piece == m.piece && o.to == m.to && o.from != m.from)
        .collect();
    let same_file = rivals.iter().any(|o| o.from % 8 == m.from % 8);
    let same_rank = rivals.iter().any(|o| o.from / 8 == m.from / 8);
    let none_ok = rivals.is_empty();
    let file_ok = !same_file;
    let rank_ok = !same_rank;
    // minimal first (FIDE C.10: file preferred over rank, both only when needed)
    let forms: Vec<(bool, String)> = vec![
        (none_ok, format!("{}{}{}", letter, x, dest)),
        (file_ok, format!("{}{}{}{}", letter, ff, x, dest)),
        (rank_ok, format!("{}{}{}{}", letter, fr, x, dest)),
        (true, format!("{}{}{}{}{}", letter, ff, fr, x, dest)),
    ];
    for (ok, s) in forms {
        if ok {
            out.push(s);
        }
    }
    out
}

/// All admissible spellings including the optional check / mate suffix.
pub fn all_spellings(m: &Mv, succ: &Pos, legal: &[(Mv, Pos)]) -> Vec<String> {
    let core = core_spellings(m, legal);
    let mut out = Vec::with_capacity(core.len() * 2);
    let check = succ.in_check(succ.wtm);
    let mate = check && !succ.has_legal_move();
    for c in core {
        if mate {
            out.push(format!("{}#", c));
            // game records often mark a mating move with '+' (it is a check as well)
            out.push(format!("{}+", c));
        } else if check {
            out.push(format!("{}+", c));
        }
        out.push(c);
    }
    out
}

/// Fully disambiguated spelling of a (possibly illegal) pseudo-legal move.
pub fn full_spelling(m: &Mv) -> String {
    if m.castle == 1 {
        return "O-O".into();
    }
    if m.castle == 2 {
        return "O-O-O".into();
    }
    let x = if m.capture != 0 { "x" } else { "" };
    if m.piece == PAWN {
        let mut s = String::new();
        if m.capture != 0 {
            s.push((b'a' + m.from % 8) as char);
            s.push('x');
        }
        s.push_str(&sq_name(m.to));
        if m.promo != 0 {
            s.push('=');
            s.push(kind_letter(m.promo));
        }
        return s;
    }
    format!(
        "{}{}{}{}",
        kind_letter(m.piece),
        sq_name(m.from),
        x,
        sq_name(m.to)
    )
}

#[derive(Debug, Clone, PartialEq, Eq)]
pub enum SanError {
    Syntax(String),
    NoMatch(String),
    Ambiguous(String, usize),
}

/// Reads a SAN token against the legal moves of `pos`; a unique match is required.
pub fn read_san(pos: &Pos, token: &str) -> Result<(Mv, Pos), SanError> {
    let legal = pos.legal();
    let t = token.trim_end_matches(|c| c == '+' || c == '#' || c == '!' || c == '?');
    let matches: Vec<&(Mv, Pos)> = if t == "O-O" || t == "0-0" {
        legal.iter().filter(|(m, _)| m.castle == 1).collect()
    } else if t == "O-O-O" || t == "0-0-0" {
        legal.iter().filter(|(m, _)| m.castle == 2).collect()
    } else {
        let b = t.as_bytes();
        if b.is_empty() || !t.is_ascii() {
            return Err(SanError::Syntax(token.into()));
        }
        let mut i = 0;
        let piece = match b[0] {
            b'K' => KING,
            b'Q' => QUEEN,
            b'R' => ROOK,
            b'B' => BISHOP,
            b'N' => KNIGHT,
            _ => PAWN,
        };
        if piece != PAWN {
            i += 1;
        }
        // promotion suffix
        let mut end = b.len();
        let mut promo = 0;
        if end >= 1 {
            let p = match b[end - 1] {
                b'Q' => QUEEN,
                b'R' => ROOK,
                b'B' => BISHOP,
                b'N' => KNIGHT,
                _ => 0,
            };
            if p != 0 && end - 1 > i {
                promo = p;
                end -= 1;
                if end >= 1 && b[end - 1] == b'=' {
                    end -= 1;
                }
            }
        }
        if end < i + 2 {
            return Err(SanError::Syntax(token.into()));
        }
        let to = match sq_from_name(&t[end - 2..end]) {
            Some(s) => s,
            None => return Err(SanError::Syntax(token.into())),
        };
        let mut mid = &b[i..end - 2];
        let mut capture = None;
        if let Some((&b'x', rest)) = mid.split_last() {
            capture = Some(true);
            mid = rest;
        }
        let mut from_file = None;
        let mut from_rank = None;
        for &c in mid {
            match c {
                b'a'..=b'h' if from_file.is_none() && from_rank.is_none() => from_file = Some(c - b'a'),
                b'1'..=b'8' if from_rank.is_none() => from_rank = Some(c - b'1'),
                _ => return Err(SanError::Syntax(token.into())),
            }
        }
        legal
            .iter()
            .filter(|(m, _)| {
                m.castle == 0
                    && m.piece == piece
                    && m.to == to
                    && m.promo == promo
                    && from_file.map(|f| m.from % 8 == f).unwrap_or(true)
                    && from_rank.map(|r| m.from / 8 == r).unwrap_or(true)
                    && capture.map(|c| (m.capture != 0) == c).unwrap_or(true)
            })
            .collect()
    };
    match matches.len() {
        0 => Err(SanError::NoMatch(token.into())),
        1 => Ok(matches[0].clone()),
        n => Err(SanError::Ambiguous(token.into(), n)),
    }
}
