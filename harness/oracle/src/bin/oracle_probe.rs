use oracle::tb::mate_distance;
use oracle::Pos;
fn main() {
    for fen in std::env::args().skip(1) {
        match Pos::from_fen(&fen) {
            Some(p) => {
                let nd = |_: &Pos| false;
                println!("{} legal={} moves={} check={} mate_within_3={:?}", fen, p.is_legal_position(), p.legal().len(), p.in_check(p.wtm), mate_distance(&p, 3, &nd));
            }
            None => println!("{} unreadable", fen),
        }
    }
}
