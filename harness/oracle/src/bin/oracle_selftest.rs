use oracle::selftest::*;
use oracle::tb::Tablebase;
fn main() {
    let depth: usize = std::env::args().nth(1).and_then(|s| s.parse().ok()).unwrap_or(4);
    let t = std::time::Instant::now();
    let mut bad = 0;
    for (n, ok, d) in perft_selftest(depth) {
        println!("{} {} {}", if ok { "ok  " } else { "FAIL" }, n, d);
        if !ok { bad += 1; }
    }
    println!("perft {:?}", t.elapsed());
    let t = std::time::Instant::now();
    let tb = Tablebase::build(16);
    println!("tb build {:?} legal={} max_win={}", t.elapsed(), tb.legal_positions, tb.max_win);
    for (n, ok, d) in tb_selftest(&tb) {
        println!("{} {} {}", if ok { "ok  " } else { "FAIL" }, n, d);
        if !ok { bad += 1; }
    }
    std::process::exit(if bad == 0 { 0 } else { 1 });
}
