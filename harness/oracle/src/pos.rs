//! Positions, moves, move generation, make-move, FEN, legality predicate, mirror.

use std::fmt::Write as _;

pub const EMPTY: u8 = 0;
pub const PAWN: u8 = 1;
pub const KNIGHT: u8 = 2;
pub const BISHOP: u8 = 3;
pub const ROOK: u8 = 4;
pub const QUEEN: u8 = 5;
pub const KING: u8 = 6;
/// added to the kind for black pieces
pub const BLACK: u8 = 8;

pub const WK: u8 = 1;
pub const WQ: u8 = 2;
pub const BK: u8 = 4;
pub const BQ: u8 = 8;

pub const A1: u8 = 0;
pub const C1: u8 = 2;
pub const D1: u8 = 3;
pub const E1: u8 = 4;
pub const F1: u8 = 5;
pub const G1: u8 = 6;
pub const H1: u8 = 7;
pub const A8: u8 = 56;
pub const C8: u8 = 58;
pub const D8: u8 = 59;
pub const E8: u8 = 60;
pub const F8: u8 = 61;
pub const G8: u8 = 62;
pub const H8: u8 = 63;

#[inline]
pub fn kind(code: u8) -> u8 {
    code & 7
}
#[inline]
pub fn is_white(code: u8) -> bool {
    code != 0 && code < 8
}
#[inline]
pub fn is_black(code: u8) -> bool {
    code >= 8
}
#[inline]
pub fn code(white: bool, kind: u8) -> u8 {
    if white {
        kind
    } else {
        kind | BLACK
    }
}
#[inline]
pub fn file_of(sq: u8) -> i8 {
    (sq % 8) as i8
}
#[inline]
pub fn rank_of(sq: u8) -> i8 {
    (sq / 8) as i8
}
#[inline]
pub fn sq_at(file: i8, rank: i8) -> Option<u8> {
    if (0..8).contains(&file) && (0..8).contains(&rank) {
        Some((rank * 8 + file) as u8)
    } else {
        None
    }
}
pub fn sq_name(sq: u8) -> String {
    let mut s = String::new();
    s.push((b'a' + sq % 8) as char);
    s.push((b'1' + sq / 8) as char);
    s
}
pub fn sq_from_name(s: &str) -> Option<u8> {
    let b = s.as_bytes();
    if b.len() != 2 || !(b'a'..=b'h').contains(&b[0]) || !(b'1'..=b'8').contains(&b[1]) {
        return None;
    }
    Some((b[1] - b'1') * 8 + (b[0] - b'a'))
}
pub fn kind_letter(kind: u8) -> char {
    match kind {
        PAWN => 'P',
        KNIGHT => 'N',
        BISHOP => 'B',
        ROOK => 'R',
        QUEEN => 'Q',
        KING => 'K',
        _ => '?',
    }
}
pub fn code_letter(c: u8) -> char {
    let l = kind_letter(kind(c));
    if is_white(c) {
        l
    } else {
        l.to_ascii_lowercase()
    }
}

#[derive(Clone, PartialEq, Eq, Hash, Debug)]
pub struct Pos {
    pub b: [u8; 64],
    pub wtm: bool,
    pub cr: u8,
    pub ep: Option<u8>,
    pub half: u64,
    pub full: u64,
}

/// Canonical state key: placement, side to move, castling rights, en-passant target.
pub type Key = [u8; 34];

#[derive(Clone, Copy, PartialEq, Eq, Hash, Debug, PartialOrd, Ord)]
pub struct Mv {
    pub from: u8,
    pub to: u8,
    /// moving piece kind (1..6)
    pub piece: u8,
    pub white: bool,
    /// captured kind or 0
    pub capture: u8,
    /// promotion kind or 0
    pub promo: u8,
    pub ep: bool,
    /// 0 none, 1 king side, 2 queen side
    pub castle: u8,
    pub double: bool,
}

impl Mv {
    /// coordinate notation: origin, destination, lower-case promotion letter
    pub fn lan(&self) -> String {
        let mut s = sq_name(self.from);
        s.push_str(&sq_name(self.to));
        if self.promo != 0 {
            s.push(kind_letter(self.promo).to_ascii_lowercase());
        }
        s
    }
}

const KNIGHT_D: [(i8, i8); 8] = [
    (1, 2),
    (2, 1),
    (2, -1),
    (1, -2),
    (-1, -2),
    (-2, -1),
    (-2, 1),
    (-1, 2),
];
const KING_D: [(i8, i8); 8] = [
    (1, 0),
    (1, 1),
    (0, 1),
    (-1, 1),
    (-1, 0),
    (-1, -1),
    (0, -1),
    (1, -1),
];
const ROOK_D: [(i8, i8); 4] = [(1, 0), (0, 1), (-1, 0), (0, -1)];
const BISHOP_D: [(i8, i8); 4] = [(1, 1), (-1, 1), (-1, -1), (1, -1)];

impl Pos {
    pub fn empty() -> Pos {
        Pos {
            b: [0; 64],
            wtm: true,
            cr: 0,
            ep: None,
            half: 0,
            full: 1,
        }
    }

    pub fn startpos() -> Pos {
        Pos::from_fen("rnbqkbnr/pppppppp/8/8/8/8/PPPPPPPP/RNBQKBNR w KQkq - 0 1").unwrap()
    }

    pub fn key(&self) -> Key {
        let mut k = [0u8; 34];
        for i in 0..32 {
            k[i] = self.b[2 * i] | (self.b[2 * i + 1] << 4);
        }
        k[32] = self.cr | if self.wtm { 16 } else { 0 };
        k[33] = self.ep.map(|e| e + 1).unwrap_or(0);
        k
    }

    pub fn king_sq(&self, white: bool) -> Option<u8> {
        let c = code(white, KING);
        (0..64u8).find(|&s| self.b[s as usize] == c)
    }

    /// Is `sq` attacked by a piece of colour `by_white` on the current board
    /// (square-by-square ray walk; the occupant of `sq` itself is irrelevant).
    pub fn attacked(&self, sq: u8, by_white: bool) -> bool {
        let (f, r) = (file_of(sq), rank_of(sq));
        // pawns: a white pawn on (f±1, r-1) attacks (f, r)
        let pr = if by_white { r - 1 } else { r + 1 };
        for df in [-1, 1] {
            if let Some(s) = sq_at(f + df, pr) {
                if self.b[s as usize] == code(by_white, PAWN) {
                    return true;
                }
            }
        }
        for (df, dr) in KNIGHT_D {
            if let Some(s) = sq_at(f + df, r + dr) {
                if self.b[s as usize] == code(by_white, KNIGHT) {
                    return true;
                }
            }
        }
        for (df, dr) in KING_D {
            if let Some(s) = sq_at(f + df, r + dr) {
                if self.b[s as usize] == code(by_white, KING) {
                    return true;
                }
            }
        }
        for (df, dr) in ROOK_D {
            let (mut cf, mut cr) = (f + df, r + dr);
            while let Some(s) = sq_at(cf, cr) {
                let c = self.b[s as usize];
                if c != EMPTY {
                    if c == code(by_white, ROOK) || c == code(by_white, QUEEN) {
                        return true;
                    }
                    break;
                }
                cf += df;
                cr += dr;
            }
        }
        for (df, dr) in BISHOP_D {
            let (mut cf, mut cr) = (f + df, r + dr);
            while let Some(s) = sq_at(cf, cr) {
                let c = self.b[s as usize];
                if c != EMPTY {
                    if c == code(by_white, BISHOP) || c == code(by_white, QUEEN) {
                        return true;
                    }
                    break;
                }
                cf += df;
                cr += dr;
            }
        }
        false
    }

    /// Squares attacked by the single piece standing on `from` (rays stop at and
    /// include the first occupied square, whatever its colour). Bit set over 64 squares.
    pub fn piece_attacks(&self, from: u8) -> u64 {
        let c = self.b[from as usize];
        let (f, r) = (file_of(from), rank_of(from));
        let mut out = 0u64;
        let mut slide = |dirs: &[(i8, i8)], out: &mut u64| {
            for &(df, dr) in dirs {
                let (mut cf, mut cr) = (f + df, r + dr);
                while let Some(s) = sq_at(cf, cr) {
                    *out |= 1u64 << s;
                    if self.b[s as usize] != EMPTY {
                        break;
                    }
                    cf += df;
                    cr += dr;
                }
            }
        };
        match kind(c) {
            PAWN => {
                let dr = if is_white(c) { 1 } else { -1 };
                for df in [-1, 1] {
                    if let Some(s) = sq_at(f + df, r + dr) {
                        out |= 1u64 << s;
                    }
                }
            }
            KNIGHT => {
                for (df, dr) in KNIGHT_D {
                    if let Some(s) = sq_at(f + df, r + dr) {
                        out |= 1u64 << s;
                    }
                }
            }
            KING => {
                for (df, dr) in KING_D {
                    if let Some(s) = sq_at(f + df, r + dr) {
                        out |= 1u64 << s;
                    }
                }
            }
            ROOK => slide(&ROOK_D, &mut out),
            BISHOP => slide(&BISHOP_D, &mut out),
            QUEEN => {
                slide(&ROOK_D, &mut out);
                slide(&BISHOP_D, &mut out);
            }
            _ => {}
        }
        out
    }

    /// Union of the attack sets of all pieces of one colour minus squares holding its own pieces.
    pub fn attack_set(&self, white: bool, pawns_only: bool) -> u64 {
        let mut out = 0u64;
        let mut own = 0u64;
        for s in 0..64u8 {
            let c = self.b[s as usize];
            if c == EMPTY || is_white(c) != white {
                continue;
            }
            own |= 1u64 << s;
            if pawns_only && kind(c) != PAWN {
                continue;
            }
            out |= self.piece_attacks(s);
        }
        out & !own
    }

    pub fn in_check(&self, white: bool) -> bool {
        match self.king_sq(white) {
            Some(k) => self.attacked(k, !white),
            None => false,
        }
    }

    /// All pseudo-legal moves of the side to move (castling already fully checked).
    pub fn pseudo_moves(&self) -> Vec<Mv> {
        let mut out = Vec::with_capacity(48);
        let w = self.wtm;
        for from in 0..64u8 {
            let c = self.b[from as usize];
            if c == EMPTY || is_white(c) != w {
                continue;
            }
            let (f, r) = (file_of(from), rank_of(from));
            let k = kind(c);
            let base = Mv {
                from,
                to: from,
                piece: k,
                white: w,
                capture: 0,
                promo: 0,
                ep: false,
                castle: 0,
                double: false,
            };
            match k {
                PAWN => {
                    let dr: i8 = if w { 1 } else { -1 };
                    let home = if w { 1 } else { 6 };
                    let last = if w { 7 } else { 0 };
                    let mut push = |to: u8, capture: u8, ep: bool, double: bool, out: &mut Vec<Mv>| {
                        if rank_of(to) == last {
                            for p in [QUEEN, ROOK, BISHOP, KNIGHT] {
                                out.push(Mv {
                                    to,
                                    capture,
                                    promo: p,
                                    ..base
                                });
                            }
                        } else {
                            out.push(Mv {
                                to,
                                capture,
                                ep,
                                double,
                                ..base
                            });
                        }
                    };
                    if let Some(one) = sq_at(f, r + dr) {
                        if self.b[one as usize] == EMPTY {
                            push(one, 0, false, false, &mut out);
                            if r == home {
                                if let Some(two) = sq_at(f, r + 2 * dr) {
                                    if self.b[two as usize] == EMPTY {
                                        push(two, 0, false, true, &mut out);
                                    }
                                }
                            }
                        }
                    }
                    for df in [-1, 1] {
                        if let Some(to) = sq_at(f + df, r + dr) {
                            let t = self.b[to as usize];
                            if t != EMPTY && is_white(t) != w {
                                push(to, kind(t), false, false, &mut out);
                            } else if t == EMPTY && self.ep == Some(to) {
                                // the victim stands beside the capturing pawn
                                let victim = sq_at(f + df, r).unwrap();
                                if self.b[victim as usize] == code(!w, PAWN) {
                                    push(to, PAWN, true, false, &mut out);
                                }
                            }
                        }
                    }
                }
                KNIGHT | KING => {
                    let ds = if k == KNIGHT { &KNIGHT_D } else { &KING_D };
                    for &(df, dr) in ds {
                        if let Some(to) = sq_at(f + df, r + dr) {
                            let t = self.b[to as usize];
                            if t == EMPTY {
                                out.push(Mv { to, ..base });
                            } else if is_white(t) != w {
                                out.push(Mv {
                                    to,
                                    capture: kind(t),
                                    ..base
                                });
                            }
                        }
                    }
                    if k == KING {
                        self.castle_moves(from, &base, &mut out);
                    }
                }
                _ => {
                    let dirs: &[(i8, i8)] = match k {
                        ROOK => &ROOK_D,
                        BISHOP => &BISHOP_D,
                        _ => &KING_D,
                    };
                    for &(df, dr) in dirs {
                        let (mut cf, mut cr) = (f + df, r + dr);
                        while let Some(to) = sq_at(cf, cr) {
                            let t = self.b[to as usize];
                            if t == EMPTY {
                                out.push(Mv { to, ..base });
                            } else {
                                if is_white(t) != w {
                                    out.push(Mv {
                                        to,
                                        capture: kind(t),
                                        ..base
                                    });
                                }
                                break;
                            }
                            cf += df;
                            cr += dr;
                        }
                    }
                }
            }
        }
        out
    }

    fn castle_moves(&self, from: u8, base: &Mv, out: &mut Vec<Mv>) {
        let w = self.wtm;
        let (home, kbit, qbit) = if w { (E1, WK, WQ) } else { (E8, BK, BQ) };
        if from != home {
            return;
        }
        let rook = code(w, ROOK);
        // FIDE 3.8.2: the king is not in check, does not pass through and does not
        // land on an attacked square; all squares between king and rook are empty.
        if self.cr & kbit != 0
            && self.b[(home + 3) as usize] == rook
            && self.b[(home + 1) as usize] == EMPTY
            && self.b[(home + 2) as usize] == EMPTY
            && !self.attacked(home, !w)
            && !self.attacked(home + 1, !w)
            && !self.attacked(home + 2, !w)
        {
            out.push(Mv {
                to: home + 2,
                castle: 1,
                ..*base
            });
        }
        if self.cr & qbit != 0
            && self.b[(home - 4) as usize] == rook
            && self.b[(home - 1) as usize] == EMPTY
            && self.b[(home - 2) as usize] == EMPTY
            && self.b[(home - 3) as usize] == EMPTY
            && !self.attacked(home, !w)
            && !self.attacked(home - 1, !w)
            && !self.attacked(home - 2, !w)
        {
            out.push(Mv {
                to: home - 2,
                castle: 2,
                ..*base
            });
        }
    }

    /// Applies a (pseudo-legal) move.
    pub fn make(&self, m: &Mv) -> Pos {
        let mut n = self.clone();
        let w = self.wtm;
        let moving = self.b[m.from as usize];
        n.b[m.from as usize] = EMPTY;
        if m.ep {
            let victim = sq_at(file_of(m.to), rank_of(m.from)).unwrap();
            n.b[victim as usize] = EMPTY;
        }
        n.b[m.to as usize] = if m.promo != 0 {
            code(w, m.promo)
        } else {
            moving
        };
        if m.castle == 1 {
            n.b[(m.from + 3) as usize] = EMPTY;
            n.b[(m.from + 1) as usize] = code(w, ROOK);
        } else if m.castle == 2 {
            n.b[(m.from - 4) as usize] = EMPTY;
            n.b[(m.from - 1) as usize] = code(w, ROOK);
        }
        // castling rights: lost when the king moves, when a rook leaves its corner,
        // and when something captures on a corner
        if kind(moving) == KING {
            n.cr &= if w { !(WK | WQ) } else { !(BK | BQ) };
        }
        for s in [m.from, m.to] {
            match s {
                A1 => n.cr &= !WQ,
                H1 => n.cr &= !WK,
                A8 => n.cr &= !BQ,
                H8 => n.cr &= !BK,
                _ => {}
            }
        }
        n.ep = if kind(moving) == PAWN && (rank_of(m.to) - rank_of(m.from)).abs() == 2 {
            Some((m.from + m.to) / 2)
        } else {
            None
        };
        n.half = if kind(moving) == PAWN || m.capture != 0 {
            0
        } else {
            self.half.wrapping_add(1)
        };
        n.full = if w {
            self.full
        } else {
            self.full.wrapping_add(1)
        };
        n.wtm = !w;
        n
    }

    /// Legal moves with their successors.
    pub fn legal(&self) -> Vec<(Mv, Pos)> {
        let w = self.wtm;
        let mut out = Vec::with_capacity(40);
        for m in self.pseudo_moves() {
            let n = self.make(&m);
            if !n.in_check(w) {
                out.push((m, n));
            }
        }
        out
    }

    pub fn legal_moves(&self) -> Vec<Mv> {
        self.legal().into_iter().map(|x| x.0).collect()
    }

    pub fn has_legal_move(&self) -> bool {
        let w = self.wtm;
        self.pseudo_moves()
            .iter()
            .any(|m| !self.make(m).in_check(w))
    }

    /// Pseudo-legal moves that are not legal (leave the own king attacked).
    pub fn illegal_pseudo_moves(&self) -> Vec<Mv> {
        let w = self.wtm;
        self.pseudo_moves()
            .into_iter()
            .filter(|m| self.make(m).in_check(w))
            .collect()
    }

    pub fn is_checkmate(&self) -> bool {
        self.in_check(self.wtm) && !self.has_legal_move()
    }

    pub fn is_stalemate(&self) -> bool {
        !self.in_check(self.wtm) && !self.has_legal_move()
    }

    pub fn perft(&self, depth: u32) -> u64 {
        if depth == 0 {
            return 1;
        }
        let l = self.legal();
        if depth == 1 {
            return l.len() as u64;
        }
        l.iter().map(|(_, n)| n.perft(depth - 1)).sum()
    }

    /// Is there a legal en-passant capture in this position?
    pub fn ep_capture_available(&self) -> bool {
        self.ep.is_some() && self.legal().iter().any(|(m, _)| m.ep)
    }

    /// The legality predicate of the properties' quantifier: one king per side, side
    /// not on move not in check, no pawns on ranks 1/8, castling rights only with
    /// king and rook at home, en-passant target only behind a pawn that could just
    /// have double-stepped.
    pub fn is_legal_position(&self) -> bool {
        let mut wk = 0;
        let mut bk = 0;
        for s in 0..64u8 {
            let c = self.b[s as usize];
            match c {
                x if x == code(true, KING) => wk += 1,
                x if x == code(false, KING) => bk += 1,
                _ => {}
            }
            if kind(c) == PAWN && (rank_of(s) == 0 || rank_of(s) == 7) {
                return false;
            }
            if c != EMPTY && (kind(c) == 0 || kind(c) > KING) {
                return false;
            }
        }
        if wk != 1 || bk != 1 {
            return false;
        }
        if self.in_check(!self.wtm) {
            return false;
        }
        let need = |bit: u8, k: u8, r: u8, white: bool| {
            self.cr & bit == 0
                || (self.b[k as usize] == code(white, KING) && self.b[r as usize] == code(white, ROOK))
        };
        if !(need(WK, E1, H1, true)
            && need(WQ, E1, A1, true)
            && need(BK, E8, H8, false)
            && need(BQ, E8, A8, false))
        {
            return false;
        }
        if let Some(t) = self.ep {
            // white to move: black just played e7-e5, target e6 (rank index 5)
            let (tr, dr): (i8, i8) = if self.wtm { (5, -1) } else { (2, 1) };
            if rank_of(t) != tr {
                return false;
            }
            let f = file_of(t);
            let pawn_sq = sq_at(f, tr + dr).unwrap();
            let origin = sq_at(f, tr - dr).unwrap();
            if self.b[t as usize] != EMPTY
                || self.b[origin as usize] != EMPTY
                || self.b[pawn_sq as usize] != code(!self.wtm, PAWN)
            {
                return false;
            }
            // before the double step the mover's opponent (now to move) must not have
            // been in check from something other than that pawn / a discovered line;
            // undoing the step: pawn back on origin, and then the side now to move
            // must not give... (the side that just moved cannot have left its own
            // king in check: already covered by in_check(!wtm) above)
        }
        true
    }

    /// Colour mirror: flip ranks, swap colours, side to move, rights, ep square.
    pub fn mirror(&self) -> Pos {
        let mut n = Pos::empty();
        for s in 0..64u8 {
            let c = self.b[s as usize];
            if c != EMPTY {
                n.b[(s ^ 56) as usize] = code(!is_white(c), kind(c));
            }
        }
        n.wtm = !self.wtm;
        n.cr = ((self.cr & (WK | WQ)) << 2) | ((self.cr & (BK | BQ)) >> 2);
        n.ep = self.ep.map(|e| e ^ 56);
        n.half = self.half;
        n.full = self.full;
        n
    }

    pub fn piece_count(&self) -> usize {
        self.b.iter().filter(|&&c| c != EMPTY).count()
    }

    // ---------------------------------------------------------------- FEN

    pub fn placement_fen(&self) -> String {
        let mut s = String::with_capacity(72);
        for r in (0..8).rev() {
            let mut run = 0;
            for f in 0..8 {
                let c = self.b[(r * 8 + f) as usize];
                if c == EMPTY {
                    run += 1;
                } else {
                    if run > 0 {
                        write!(s, "{}", run).unwrap();
                        run = 0;
                    }
                    s.push(code_letter(c));
                }
            }
            if run > 0 {
                write!(s, "{}", run).unwrap();
            }
            if r > 0 {
                s.push('/');
            }
        }
        s
    }

    pub fn rights_fen(&self) -> String {
        if self.cr == 0 {
            return "-".into();
        }
        let mut s = String::new();
        for (bit, ch) in [(WK, 'K'), (WQ, 'Q'), (BK, 'k'), (BQ, 'q')] {
            if self.cr & bit != 0 {
                s.push(ch);
            }
        }
        s
    }

    /// Canonical six-field FEN.
    pub fn fen(&self) -> String {
        format!(
            "{} {} {} {} {} {}",
            self.placement_fen(),
            if self.wtm { 'w' } else { 'b' },
            self.rights_fen(),
            self.ep.map(sq_name).unwrap_or_else(|| "-".into()),
            self.half,
            self.full
        )
    }

    /// First four fields only.
    pub fn epd(&self) -> String {
        format!(
            "{} {} {} {}",
            self.placement_fen(),
            if self.wtm { 'w' } else { 'b' },
            self.rights_fen(),
            self.ep.map(sq_name).unwrap_or_else(|| "-".into()),
        )
    }

    pub fn from_fen(fen: &str) -> Option<Pos> {
        let parts: Vec<&str> = fen.split(' ').collect();
        if parts.len() != 6 && parts.len() != 4 {
            return None;
        }
        let mut p = Pos::empty();
        let ranks: Vec<&str> = parts[0].split('/').collect();
        if ranks.len() != 8 {
            return None;
        }
        for (i, rank) in ranks.iter().enumerate() {
            let r = 7 - i as i8;
            let mut f: i8 = 0;
            for ch in rank.chars() {
                if let Some(d) = ch.to_digit(10) {
                    if !(1..=8).contains(&d) {
                        return None;
                    }
                    f += d as i8;
                } else {
                    let k = match ch.to_ascii_uppercase() {
                        'P' => PAWN,
                        'N' => KNIGHT,
                        'B' => BISHOP,
                        'R' => ROOK,
                        'Q' => QUEEN,
                        'K' => KING,
                        _ => return None,
                    };
                    let s = sq_at(f, r)?;
                    p.b[s as usize] = code(ch.is_ascii_uppercase(), k);
                    f += 1;
                }
                if f > 8 {
                    return None;
                }
            }
            if f != 8 {
                return None;
            }
        }
        p.wtm = match parts[1] {
            "w" => true,
            "b" => false,
            _ => return None,
        };
        if parts[2] != "-" {
            for ch in parts[2].chars() {
                p.cr |= match ch {
                    'K' => WK,
                    'Q' => WQ,
                    'k' => BK,
                    'q' => BQ,
                    _ => return None,
                };
            }
        }
        p.ep = if parts[3] == "-" {
            None
        } else {
            Some(sq_from_name(parts[3])?)
        };
        if parts.len() == 6 {
            p.half = parts[4].parse().ok()?;
            p.full = parts[5].parse().ok()?;
        }
        Some(p)
    }

    /// Finds the legal move with these coordinates (promotion kind 0 = none).
    pub fn find_lan(&self, lan: &str) -> Option<(Mv, Pos)> {
        if lan.len() < 4 || !lan.is_ascii() {
            return None;
        }
        let from = sq_from_name(&lan[0..2])?;
        let to = sq_from_name(&lan[2..4])?;
        let promo = match lan.as_bytes().get(4) {
            None => 0,
            Some(b'q') => QUEEN,
            Some(b'r') => ROOK,
            Some(b'b') => BISHOP,
            Some(b'n') => KNIGHT,
            _ => return None,
        };
        if lan.len() > 5 {
            return None;
        }
        self.legal()
            .into_iter()
            .find(|(m, _)| m.from == from && m.to == to && m.promo == promo)
    }
}
