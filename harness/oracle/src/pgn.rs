//! Independent PGN reader: games are delimited by PGN structure (tag-pair
//! section, then movetext up to the game-termination marker), not by blank lines.

#[derive(Debug, Clone, Default)]
pub struct Game {
    pub tags: Vec<(String, String)>,
    /// SAN tokens of the main line, in order
    pub moves: Vec<String>,
    pub result: Option<String>,
    /// 1-based line number of the first tag / move of the game
    pub line: usize,
}

fn is_result(t: &str) -> bool {
    matches!(t, "1-0" | "0-1" | "1/2-1/2" | "*")
}

/// Splits the text of a PGN file into games.
pub fn read_games(text: &str) -> Vec<Game> {
    let mut games = Vec::new();
    let mut cur = Game::default();
    let mut in_movetext = false;
    let mut brace = false; // inside { }
    let mut paren = 0usize; // variation depth
    let mut have_any = false;
    let mut junk = 0usize;

    let mut flush = |cur: &mut Game, games: &mut Vec<Game>, have_any: &mut bool| {
        if *have_any {
            games.push(std::mem::take(cur));
        }
        *have_any = false;
    };

    for (ln, raw) in text.lines().enumerate() {
        let line = raw.trim_end_matches('\r');
        if !brace && paren == 0 && line.trim_start().starts_with('[') && line.trim_end().ends_with(']') {
            // a tag pair; if we were in movetext the previous game ended without a marker
            if in_movetext {
                flush(&mut cur, &mut games, &mut have_any);
                in_movetext = false;
            }
            let inner = line.trim().trim_start_matches('[').trim_end_matches(']');
            let (name, value) = match inner.split_once(char::is_whitespace) {
                Some((n, v)) => (n.to_string(), v.trim().trim_matches('"').to_string()),
                None => (inner.to_string(), String::new()),
            };
            if !have_any {
                cur.line = ln + 1;
            }
            have_any = true;
            cur.tags.push((name, value));
            continue;
        }
        if line.trim().is_empty() {
            continue;
        }
        // movetext line
        let mut text = String::new();
        let mut chars = line.chars().peekable();
        while let Some(c) = chars.next() {
            if brace {
                if c == '}' {
                    brace = false;
                    text.push(' ');
                }
                continue;
            }
            match c {
                '{' => brace = true,
                ';' => break,
                '(' => {
                    paren += 1;
                    text.push(' ');
                }
                ')' => {
                    paren = paren.saturating_sub(1);
                    text.push(' ');
                }
                _ if paren > 0 => {}
                _ => text.push(c),
            }
        }
        for tok in text.split_whitespace() {
            // text that is not preceded by a tag-pair section is not a game (the corpus has
            // free-text separator lines between tournaments)
            if !have_any && !in_movetext {
                junk += 1;
                continue;
            }
            if !in_movetext {
                in_movetext = true;
                if !have_any {
                    cur.line = ln + 1;
                }
                have_any = true;
            }
            if is_result(tok) {
                cur.result = Some(tok.to_string());
                flush(&mut cur, &mut games, &mut have_any);
                in_movetext = false;
                continue;
            }
            if tok.starts_with('$') {
                continue;
            }
            // strip a leading move number: "12." "12..." "12.e4"
            let t = {
                let digits = tok.chars().take_while(|c| c.is_ascii_digit()).count();
                if digits > 0 && tok[digits..].starts_with('.') {
                    tok[digits..].trim_start_matches('.')
                } else {
                    tok
                }
            };
            if t.is_empty() {
                continue;
            }
            cur.moves.push(t.to_string());
        }
    }
    flush(&mut cur, &mut games, &mut have_any);
    let _ = junk;
    games
}
