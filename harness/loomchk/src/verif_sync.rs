//! Shim that searcher.rs resolves its synchronisation imports to in the loom flavour
//! (`--cfg weechess_verif_loom`): loom's RwLock / Arc / AtomicBool / threads, a channel
//! model with std's mpsc semantics (including disconnection), and a look-alike of the
//! rayon parallel map whose items run on loom threads.

pub use loom::sync::atomic::{AtomicBool, Ordering};
pub use loom::sync::Arc;

/// loom's RwLock with one extra scheduling point *inside* every critical section (loom
/// branches before an acquisition only, so without it no thread is ever observed holding a
/// lock, and a `try_read` / `try_write` could never fail). The point is a load of a dummy
/// atomic; the `try_*` calls write to that atomic before the attempt, which is what makes
/// the partial-order reduction consider "attempt while another thread holds the lock".
/// Loads commute, so harnesses of code without `try_*` calls explore the same schedules.
pub struct RwLock<T> {
    inner: loom::sync::RwLock<T>,
    held: loom::sync::atomic::AtomicUsize,
}

impl<T> RwLock<T> {
    pub fn new(t: T) -> Self {
        Self { inner: loom::sync::RwLock::new(t), held: loom::sync::atomic::AtomicUsize::new(0) }
    }
    pub fn read(&self) -> std::sync::LockResult<loom::sync::RwLockReadGuard<'_, T>> {
        let g = self.inner.read();
        self.held.load(Ordering::SeqCst);
        g
    }
    pub fn write(&self) -> std::sync::LockResult<loom::sync::RwLockWriteGuard<'_, T>> {
        let g = self.inner.write();
        self.held.load(Ordering::SeqCst);
        g
    }
    pub fn try_read(&self) -> std::sync::TryLockResult<loom::sync::RwLockReadGuard<'_, T>> {
        self.held.fetch_add(1, Ordering::SeqCst);
        let g = self.inner.try_read();
        if g.is_ok() {
            self.held.load(Ordering::SeqCst);
        }
        g
    }
    pub fn try_write(&self) -> std::sync::TryLockResult<loom::sync::RwLockWriteGuard<'_, T>> {
        self.held.fetch_add(1, Ordering::SeqCst);
        let g = self.inner.try_write();
        if g.is_ok() {
            self.held.load(Ordering::SeqCst);
        }
        g
    }
}
pub use std::collections::HashMap;

pub const STACK: usize = 1 << 22;

pub mod thread {
    pub use loom::thread::JoinHandle;

    pub fn spawn<F, T>(f: F) -> JoinHandle<T>
    where
        F: FnOnce() -> T + Send + 'static,
        T: Send + 'static,
    {
        loom::thread::Builder::new()
            .stack_size(super::STACK)
            .spawn(f)
            .expect("loom thread limit reached")
    }
}

pub mod mpsc {
    //! std::sync::mpsc semantics on loom primitives: unbounded FIFO, `recv` fails once
    //! the queue is empty and every sender is gone, `send` fails once the receiver is gone.
    use loom::sync::{Arc, Condvar, Mutex};
    use std::collections::VecDeque;

    struct Inner<T> {
        queue: VecDeque<T>,
        senders: usize,
        receiver_alive: bool,
    }

    struct Shared<T> {
        inner: Mutex<Inner<T>>,
        cv: Condvar,
    }

    pub struct Sender<T>(Arc<Shared<T>>);
    pub struct Receiver<T>(Arc<Shared<T>>);

    pub struct SendError<T>(pub T);
    impl<T> std::fmt::Debug for SendError<T> {
        fn fmt(&self, f: &mut std::fmt::Formatter<'_>) -> std::fmt::Result {
            write!(f, "SendError(..)")
        }
    }

    #[derive(Debug, PartialEq, Eq, Clone, Copy)]
    pub struct RecvError;

    #[derive(Debug, PartialEq, Eq, Clone, Copy)]
    pub enum TryRecvError {
        Empty,
        Disconnected,
    }

    pub fn channel<T>() -> (Sender<T>, Receiver<T>) {
        let shared = Arc::new(Shared {
            inner: Mutex::new(Inner {
                queue: VecDeque::new(),
                senders: 1,
                receiver_alive: true,
            }),
            cv: Condvar::new(),
        });
        (Sender(shared.clone()), Receiver(shared))
    }

    impl<T> Sender<T> {
        pub fn send(&self, t: T) -> Result<(), SendError<T>> {
            let mut g = self.0.inner.lock().unwrap();
            if !g.receiver_alive {
                return Err(SendError(t));
            }
            g.queue.push_back(t);
            drop(g);
            self.0.cv.notify_one();
            Ok(())
        }
    }

    impl<T> Clone for Sender<T> {
        fn clone(&self) -> Self {
            self.0.inner.lock().unwrap().senders += 1;
            Sender(self.0.clone())
        }
    }

    impl<T> Drop for Sender<T> {
        fn drop(&mut self) {
            let mut g = self.0.inner.lock().unwrap();
            g.senders -= 1;
            let last = g.senders == 0;
            drop(g);
            if last {
                self.0.cv.notify_all();
            }
        }
    }

    impl<T> Receiver<T> {
        pub fn recv(&self) -> Result<T, RecvError> {
            let mut g = self.0.inner.lock().unwrap();
            loop {
                if let Some(t) = g.queue.pop_front() {
                    return Ok(t);
                }
                if g.senders == 0 {
                    return Err(RecvError);
                }
                g = self.0.cv.wait(g).unwrap();
            }
        }

        pub fn try_recv(&self) -> Result<T, TryRecvError> {
            let mut g = self.0.inner.lock().unwrap();
            if let Some(t) = g.queue.pop_front() {
                return Ok(t);
            }
            if g.senders == 0 {
                Err(TryRecvError::Disconnected)
            } else {
                Err(TryRecvError::Empty)
            }
        }
    }

    impl<T> Drop for Receiver<T> {
        fn drop(&mut self) {
            let drained: Vec<T> = {
                let mut g = self.0.inner.lock().unwrap();
                g.receiver_alive = false;
                g.queue.drain(..).collect()
            };
            drop(drained);
        }
    }
}

pub mod rayon_prelude {
    //! `vec.into_par_iter().map(f).collect()` with the first item on the calling thread
    //! and every further item on its own loom thread; all are joined before `collect`
    //! returns (exactly the fork-join contract the search relies on).

    pub trait IntoParallelIterator {
        type Item;
        fn into_par_iter(self) -> ParIter<Self::Item>;
    }

    impl<T> IntoParallelIterator for Vec<T> {
        type Item = T;
        fn into_par_iter(self) -> ParIter<T> {
            ParIter(self)
        }
    }

    pub struct ParIter<T>(Vec<T>);
    pub struct ParMap<T, F>(Vec<T>, F);

    impl<T> ParIter<T> {
        pub fn map<R, F: Fn(T) -> R + Sync>(self, f: F) -> ParMap<T, F> {
            ParMap(self.0, f)
        }
    }

    fn trampoline<T, R, F: Fn(T) -> R>(f: usize, item: usize) -> usize {
        let f = unsafe { &*(f as *const F) };
        let item = unsafe { *Box::from_raw(item as *mut T) };
        Box::into_raw(Box::new(f(item))) as usize
    }

    // not generic: the spawned closure must not mention the caller's (non-'static) types
    fn spawn_erased(tramp: fn(usize, usize) -> usize, f: usize, item: usize) -> loom::thread::JoinHandle<usize> {
        super::thread::spawn(move || tramp(f, item))
    }

    impl<T, F> ParMap<T, F> {
        pub fn collect<R, C>(self) -> C
        where
            F: Fn(T) -> R + Sync,
            C: FromIterator<R>,
        {
            let ParMap(items, f) = self;
            let f_addr = &f as *const F as usize;
            let mut iter = items.into_iter();
            let first = iter.next();
            let handles: Vec<_> = iter
                .map(|item| {
                    let item = Box::into_raw(Box::new(item)) as usize;
                    spawn_erased(trampoline::<T, R, F>, f_addr, item)
                })
                .collect();
            let mut results: Vec<R> = Vec::new();
            if let Some(x) = first {
                results.push(f(x));
            }
            for h in handles {
                let r = h.join().expect("worker panicked");
                results.push(unsafe { *Box::from_raw(r as *mut R) });
            }
            results.into_iter().collect()
        }
    }
}
