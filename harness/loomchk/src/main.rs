fn main(){}
