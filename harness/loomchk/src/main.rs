//! Engine C: loom exploration of the real searcher.rs (included by path from /repo, with
//! its synchronisation imports switched to the shim in verif_sync.rs).
//!
//! usage: loomchk <harness> [--pb N|none] [--fen F] [--depth D] [--workers W] [--tables T]
//!                [--buckets B] [--script S] [--seed S] [--max-secs S] [--variant V]
//! Prints one JSON object on the last line of stdout.

#![feature(generic_const_exprs)]
#![feature(slice_split_once)]
#![allow(incomplete_features)]
#![allow(dead_code)]

#[path = "/repo/weechess-engine/src/eval/mod.rs"]
pub mod eval;
#[path = "/repo/weechess-engine/src/searcher.rs"]
pub mod searcher;
pub mod verif_sync;

#[path = "../../posmc/src/bridge.rs"]
mod bridge;

use bridge::*;
use oracle::*;
use searcher::verif::{Plan, VerifEntry, VerifTable};
use searcher::{ControlEvent, SearchArtifact, Searcher, StatusEvent};
use serde_json::{json, Value};
use std::collections::{BTreeMap, BTreeSet};
use std::sync::atomic::{AtomicU64, Ordering as O};
use std::sync::{Arc as StdArc, Mutex as StdMutex};
use weechess_core::{Move, PieceIndex};

struct Args {
    harness: String,
    pb: Option<usize>,
    fen: String,
    fen2: Option<String>,
    depth: Option<usize>,
    workers: usize,
    tables: usize,
    buckets: usize,
    script: String,
    seed: u64,
    max_secs: u64,
    variant: usize,
    good: Vec<String>,
    root_win: usize,
    rec_fen: Option<String>,
    rec_move: Option<String>,
}

fn parse_args() -> Args {
    let a: Vec<String> = std::env::args().collect();
    let mut r = Args {
        harness: a.get(1).cloned().unwrap_or_default(),
        pb: Some(2),
        fen: "8/8/8/4k3/8/8/3P4/4K3 w - - 0 1".into(),
        fen2: None,
        depth: Some(1),
        workers: 2,
        tables: 1,
        buckets: 64,
        script: "join".into(),
        seed: 0,
        max_secs: 600,
        variant: 0,
        good: vec![],
        root_win: 0,
        rec_fen: None,
        rec_move: None,
    };
    let mut i = 2;
    while i + 1 < a.len() {
        let v = a[i + 1].clone();
        match a[i].as_str() {
            "--pb" => r.pb = if v == "none" { None } else { Some(v.parse().unwrap()) },
            "--fen" => r.fen = v,
            "--fen2" => r.fen2 = Some(v),
            "--depth" => r.depth = if v == "none" { None } else { Some(v.parse().unwrap()) },
            "--workers" => r.workers = v.parse().unwrap(),
            "--tables" => r.tables = v.parse().unwrap(),
            "--buckets" => r.buckets = v.parse().unwrap(),
            "--script" => r.script = v,
            "--seed" => r.seed = v.parse().unwrap(),
            "--max-secs" => r.max_secs = v.parse().unwrap(),
            "--variant" => r.variant = v.parse().unwrap(),
            "--good" => r.good = v.split(',').filter(|x| !x.is_empty()).map(|x| x.to_string()).collect(),
            "--root-win" => r.root_win = v.parse().unwrap(),
            "--rec-fen" => r.rec_fen = Some(v),
            "--rec-move" => r.rec_move = Some(v),
            x => panic!("unknown argument {}", x),
        }
        i += 2;
    }
    r
}

struct Shared {
    executions: AtomicU64,
    outcomes: StdMutex<BTreeMap<String, u64>>,
    violations: StdMutex<Vec<Value>>,
}

impl Shared {
    fn outcome(&self, s: String) {
        *self.outcomes.lock().unwrap().entry(s).or_insert(0) += 1;
    }
    fn violation(&self, v: Value) {
        let mut g = self.violations.lock().unwrap();
        if g.len() < 20 {
            g.push(v);
        }
    }
}

fn explore<F: Fn(&Shared) + Send + Sync + 'static>(args: &Args, body: F) -> Value {
    // lazily built attack tables are forced before the model, they are read-only afterwards
    let _ = weechess_core::MoveGenerator::compute_legal_moves(&weechess_core::State::default());
    let shared = StdArc::new(Shared {
        executions: AtomicU64::new(0),
        outcomes: StdMutex::new(BTreeMap::new()),
        violations: StdMutex::new(Vec::new()),
    });
    let mut b = loom::model::Builder::new();
    b.preemption_bound = args.pb;
    b.max_branches = 1_000_000;
    b.checkpoint_interval = 500;
    b.max_duration = Some(std::time::Duration::from_secs(args.max_secs));
    if let Ok(f) = std::env::var("LOOMCHK_CHECKPOINT") {
        b.checkpoint_file = Some(f.into());
    }
    let start = std::time::Instant::now();
    let sh = shared.clone();
    let body = StdArc::new(body);
    b.check(move || {
        let sh = sh.clone();
        let body = body.clone();
        // the model's own coroutine has a small stack: run the body on a big-stack loom thread
        loom::thread::Builder::new()
            .stack_size(verif_sync::STACK)
            .spawn(move || {
                sh.executions.fetch_add(1, O::SeqCst);
                body(&sh);
            })
            .unwrap()
            .join()
            .unwrap();
    });
    let elapsed = start.elapsed().as_secs_f64();
    let completed = elapsed < args.max_secs as f64;
    let outcomes = shared.outcomes.lock().unwrap().clone();
    json!({
        "harness": args.harness,
        "preemption_bound": args.pb,
        "executions": shared.executions.load(O::SeqCst),
        "distinct_outcomes": outcomes.len(),
        "outcomes": outcomes.iter().take(12).map(|(k, v)| json!({"outcome": k, "schedules": v})).collect::<Vec<_>>(),
        "violations": *shared.violations.lock().unwrap(),
        "completed": completed,
        "wall_s": elapsed,
    })
}

fn lan_line(line: &[Move]) -> Vec<String> {
    line.iter().map(|m| mv_of(m).lan()).collect()
}

fn line_error(p: &Pos, line: &[Move]) -> Option<String> {
    if line.is_empty() {
        return Some("empty line".into());
    }
    let mut cur = p.clone();
    for (i, m) in line.iter().enumerate() {
        let mv = mv_of(m);
        match cur.legal().into_iter().find(|(lm, _)| *lm == mv) {
            Some((_, n)) => cur = n,
            None => return Some(format!("move {} ({}) not legal in {}", i + 1, mv.lan(), cur.fen())),
        }
    }
    None
}

/// One synchronous search inside the model; returns the BestMove events.
fn search(p: &Pos, seed: u64, depth: Option<usize>, workers: usize, artifact: SearchArtifact, plan: Option<StdArc<Plan>>) -> (Vec<(Vec<Move>, i32)>, SearchArtifact) {
    let mut bests = Vec::new();
    let a = Searcher::verif_analyze_sync(to_state(p), &eval::Evaluator::default(), seed, depth, Some(artifact), Some(workers), plan, &mut |e| {
        if let StatusEvent::BestMove { line, evaluation } = e {
            bests.push((line, evaluation.into()));
        }
    });
    (bests, a)
}

// ---------------------------------------------------------------- harness: workers_lines (C03)

fn h_workers_lines(args: &Args) -> Value {
    let p = Pos::from_fen(&args.fen).expect("bad fen");
    let p2 = args.fen2.as_ref().map(|f| Pos::from_fen(f).expect("bad fen2"));
    let (depth, workers, seed, tables, buckets) = (args.depth, args.workers, args.seed, args.tables, args.buckets);
    let fen = args.fen.clone();
    explore(args, move |sh| {
        let artifact = SearchArtifact::verif_new(seed, tables, buckets);
        // with a second position the first search only produces the history (one worker:
        // loom allows five threads per execution)
        let (bests, artifact) = search(&p, seed, depth, if p2.is_some() { 1 } else { workers }, artifact, None);
        let mut out = String::new();
        for (line, eval) in &bests {
            if let Some(e) = line_error(&p, line) {
                sh.violation(json!({"kind": "illegal-line", "fen": fen, "line": lan_line(line), "error": e}));
            }
            out.push_str(&format!("[{}]{};", lan_line(line).join(" "), eval));
        }
        if bests.is_empty() && p.has_legal_move() {
            sh.violation(json!({"kind": "no-report", "fen": fen}));
        }
        let (entries, occupied, cap) = artifact.verif_table_stats();
        if entries != occupied || entries > cap {
            sh.violation(json!({"kind": "table-count-drift", "entries": entries, "occupied": occupied, "capacity": cap}));
        }
        // optionally a second position searched back-to-back on the same artifact
        if let Some(p2) = &p2 {
            let (b2, _) = search(p2, seed + 1, depth, workers, artifact, None);
            for (line, eval) in &b2 {
                if let Some(e) = line_error(p2, line) {
                    sh.violation(json!({"kind": "illegal-line-after-history", "fen": p2.fen(), "line": lan_line(line), "error": e, "history": [fen]}));
                }
                out.push_str(&format!("2[{}]{};", lan_line(line).join(" "), eval));
            }
            if b2.is_empty() && p2.has_legal_move() {
                sh.violation(json!({"kind": "no-report", "fen": p2.fen()}));
            }
        }
        sh.outcome(out);
    })
}

// ---------------------------------------------------------------- harness: workers_mate (C06)

fn h_workers_mate(args: &Args) -> Value {
    // the tablebase facts are computed by the caller (posmc): --root-win n (0 = the side to
    // move has no forced mate) and --good = the first moves that keep the forced mate
    let p = Pos::from_fen(&args.fen).expect("bad fen");
    let (depth, workers, seed, tables, buckets) = (args.depth, args.workers, args.seed, args.tables, args.buckets);
    let fen = args.fen.clone();
    let root_win = args.root_win;
    let good = args.good.clone();
    let need_mate = root_win > 0 && depth.map(|d| root_win <= d).unwrap_or(false);
    let mut r = explore(args, move |sh| {
        let artifact = SearchArtifact::verif_new(seed, tables, buckets);
        let (bests, _) = search(&p, seed, depth, workers, artifact, None);
        let mut out = String::new();
        for (line, eval) in &bests {
            if let Some(e) = line_error(&p, line) {
                sh.violation(json!({"kind": "illegal-line", "fen": fen, "line": lan_line(line), "error": e}));
                continue;
            }
            if *eval >= 10_000 {
                let ok = root_win > 0 && good.contains(&mv_of(&line[0]).lan());
                if !ok {
                    sh.violation(json!({"kind": "false-mate-claim", "fen": fen, "line": lan_line(line), "evaluation": eval}));
                }
            }
            out.push_str(&format!("[{}]{};", lan_line(line).join(" "), eval));
        }
        match bests.last() {
            Some((line, eval)) => {
                if need_mate && *eval < 10_000 {
                    sh.violation(json!({"kind": "forced-mate-missed", "fen": fen, "line": lan_line(line), "evaluation": eval, "mate_in_plies": root_win}));
                }
            }
            None => sh.violation(json!({"kind": "no-report", "fen": fen})),
        }
        sh.outcome(out);
    });
    r["mate_in_plies"] = json!(root_win);
    r["mate_required"] = json!(need_mate);
    r
}

// ---------------------------------------------------------------- harness: workers_history (C17)

fn h_workers_history(args: &Args) -> Value {
    // --rec-fen: the recorded successor, --rec-move: the move leading to it, --depth: a depth
    // at which a mate avoiding the recorded position exists (all computed by the caller)
    let p = Pos::from_fen(&args.fen).expect("bad fen");
    let rec_pos = Pos::from_fen(args.rec_fen.as_ref().expect("--rec-fen")).expect("bad rec fen");
    let rec_mv = args.rec_move.clone().expect("--rec-move");
    let depth = args.depth.expect("--depth");
    let (workers, seed, tables, buckets) = (args.workers, args.seed, args.tables, args.buckets);
    let fen = args.fen.clone();
    let rec_fen = rec_pos.fen();
    let good = args.good.clone();
    explore(args, move |sh| {
        let mut artifact = SearchArtifact::verif_new(seed, tables, buckets);
        artifact.verif_record_history(&to_state(&rec_pos));
        let (bests, _) = search(&p, seed, Some(depth), workers, artifact, None);
        let mut out = String::new();
        for (line, eval) in &bests {
            if let Some(e) = line_error(&p, line) {
                sh.violation(json!({"kind": "illegal-line", "fen": fen, "line": lan_line(line), "error": e}));
            }
            out.push_str(&format!("[{}]{};", lan_line(line).join(" "), eval));
        }
        match bests.last() {
            Some((line, eval)) => {
                let first = mv_of(&line[0]).lan();
                if *eval < 10_000 {
                    sh.violation(json!({"kind": "repetition-avoiding-mate-missed", "fen": fen, "recorded": rec_fen, "line": lan_line(line), "evaluation": eval, "depth": depth}));
                } else if first == rec_mv {
                    sh.violation(json!({"kind": "repeating-move-chosen", "fen": fen, "recorded": rec_fen, "line": lan_line(line)}));
                } else if !good.contains(&first) {
                    sh.violation(json!({"kind": "first-move-spoils-the-mate", "fen": fen, "recorded": rec_fen, "line": lan_line(line)}));
                }
            }
            None => sh.violation(json!({"kind": "no-report", "fen": fen})),
        }
        sh.outcome(out);
    })
}

// ---------------------------------------------------------------- harness: analyze_protocol (C04) / analyze_deterministic (C19)

fn h_analyze_protocol(args: &Args, deterministic: bool) -> Value {
    let p = Pos::from_fen(&args.fen).expect("bad fen");
    let (depth, seed, tables, buckets) = (args.depth, args.seed, args.tables, args.buckets);
    let script = args.script.clone();
    let fen = args.fen.clone();
    // The stop flag is polled at every node so that a Stop can land inside an iteration.
    // Without a depth limit the search is additionally interrupted by the hook after a few
    // nodes (inside the second iteration): loom allows five threads per execution, and the
    // public entry point starts many workers from the fourth iteration on.
    let node_limit = if depth.is_none() { 30 } else { 0 };
    let has_move = p.has_legal_move();
    let first_digest: StdArc<StdMutex<Option<String>>> = StdArc::new(StdMutex::new(None));
    explore(args, move |sh| {
        searcher::verif::set_global_plan(Some(Plan::new(0, 1, node_limit)));
        let artifact = SearchArtifact::verif_new(seed, tables, buckets);
        let (handle, tx, rx) = Searcher::new().analyze(to_state(&p), seed, eval::Evaluator::default(), depth, Some(artifact));
        let mut events: Vec<String> = Vec::new();
        let mut drain = |rx: &verif_sync::mpsc::Receiver<StatusEvent>, events: &mut Vec<String>| {
            while let Ok(e) = rx.recv() {
                match e {
                    StatusEvent::BestMove { line, evaluation } => {
                        if let Some(err) = line_error(&p, &line) {
                            sh.violation(json!({"kind": "illegal-line", "fen": fen, "line": lan_line(&line), "error": err}));
                        }
                        events.push(format!("B[{}]{}", lan_line(&line).join(" "), i32::from(evaluation)));
                    }
                    StatusEvent::Progress { depth, nodes_searched, .. } => events.push(format!("P{}:{}", depth, nodes_searched)),
                    StatusEvent::Warning { .. } => events.push("W".into()),
                }
            }
        };
        let joined;
        match script.as_str() {
            // depth-limited: finishes by itself while the caller still holds the sender
            "join" => {
                drain(&rx, &mut events);
                joined = handle.join().is_ok();
                drop(tx);
            }
            "stop-join" => {
                let _ = tx.send(ControlEvent::Stop);
                joined = handle.join().is_ok();
                drain(&rx, &mut events);
                drop(tx);
            }
            "stop-twice" => {
                let _ = tx.send(ControlEvent::Stop);
                let _ = tx.send(ControlEvent::Stop);
                joined = handle.join().is_ok();
                drain(&rx, &mut events);
                drop(tx);
            }
            "drop-receiver-stop" => {
                drop(rx);
                let _ = tx.send(ControlEvent::Stop);
                joined = handle.join().is_ok();
                drop(tx);
            }
            "drop-sender" => {
                drop(tx);
                joined = handle.join().is_ok();
                drain(&rx, &mut events);
            }
            "stop-after-completion" => {
                drain(&rx, &mut events);
                joined = handle.join().is_ok();
                let _ = tx.send(ControlEvent::Stop);
                drop(tx);
            }
            other => panic!("unknown script {}", other),
        }
        if !joined {
            sh.violation(json!({"kind": "join-failed", "fen": fen, "script": script}));
        }
        let digest = events.join(";");
        if deterministic {
            let mut g = first_digest.lock().unwrap();
            match &*g {
                None => *g = Some(digest.clone()),
                Some(d) if *d != digest => sh.violation(json!({"kind": "schedule-dependent-events", "fen": fen, "first": d, "other": digest})),
                _ => {}
            }
        }
        if script == "join" && has_move && !events.iter().any(|e| e.starts_with('B')) {
            sh.violation(json!({"kind": "no-report", "fen": fen, "script": script}));
        }
        sh.outcome(digest);
    })
}

// ---------------------------------------------------------------- harness: tt_linearizable (C15)

#[derive(Clone, Copy, Debug, PartialEq, Eq)]
enum Op {
    Insert(u64, u8),
    Find(u64),
}

fn entry_for(key: u64, v: u8) -> VerifEntry {
    use weechess_core::{Color, Piece, Square};
    VerifEntry {
        kind: v % 3,
        performed_move: Move::by_moving(
            PieceIndex::new(Color::White, Piece::Knight),
            Square::try_from((key % 64) as u8).unwrap(),
            Square::try_from(((key / 7 + v as u64 * 5) % 64) as u8).unwrap(),
        ),
        depth: v as usize,
        max_depth: v as usize + 1,
        evaluation: v as i32 * 10 - 5,
    }
}

fn apply(t: &VerifTable, op: Op) -> Option<VerifEntry> {
    match op {
        Op::Insert(k, v) => {
            t.insert(k, entry_for(k, v));
            None
        }
        Op::Find(k) => t.find(k),
    }
}

fn h_tt_linearizable(args: &Args) -> Value {
    let (tables, buckets) = (args.tables, args.buckets);
    let m = (tables * buckets) as u64; // keys congruent mod m share table and bucket
    // thread programs: colliding keys; variant selects the menu entry
    let k = |i: u64| 1 + i * m * 2; // all in the same bucket of the same table
    let other = 2u64; // a key elsewhere (when m > 1)
    let programs: Vec<Vec<Vec<Op>>> = vec![
        vec![vec![Op::Insert(k(0), 1), Op::Find(k(1))], vec![Op::Insert(k(1), 2), Op::Find(k(0))]],
        vec![vec![Op::Insert(k(0), 1), Op::Insert(k(0), 2)], vec![Op::Find(k(0)), Op::Find(k(0))]],
        vec![vec![Op::Insert(k(9), 1), Op::Find(k(0))], vec![Op::Insert(k(10), 2), Op::Find(k(1))]],
        vec![vec![Op::Insert(k(0), 1)], vec![Op::Insert(k(1), 2)], vec![Op::Find(k(0)), Op::Find(k(1))]],
        vec![vec![Op::Insert(k(9), 1), Op::Find(k(9))], vec![Op::Insert(k(10), 2), Op::Find(k(10))], vec![Op::Insert(other, 3), Op::Find(k(2))]],
        vec![vec![Op::Insert(k(9), 1), Op::Insert(k(10), 1)], vec![Op::Insert(k(11), 2), Op::Find(k(9))]],
    ];
    let prog = programs[args.variant % programs.len()].clone();
    // variants 2, 4, 5 start from a full bucket (8 keys) so that inserts displace
    let prefill: Vec<u64> = if [2, 4, 5].contains(&(args.variant % programs.len())) { (0..8).map(k).collect() } else { vec![] };
    let prog_json = json!(prog.iter().map(|t| t.iter().map(|o| format!("{:?}", o)).collect::<Vec<_>>()).collect::<Vec<_>>());
    let prefill2 = prefill.clone();
    let mut r = explore(args, move |sh| {
        let table = loom::sync::Arc::new(VerifTable::new(tables, buckets));
        for &key in &prefill {
            table.insert(key, entry_for(key, 7));
        }
        let clock = StdArc::new(AtomicU64::new(0));
        // history: (thread, op, result, invoked, returned)
        let hist: StdArc<StdMutex<Vec<(usize, Op, Option<VerifEntry>, u64, u64)>>> = StdArc::new(StdMutex::new(Vec::new()));
        let mut handles = Vec::new();
        for (ti, ops) in prog.iter().enumerate().skip(1) {
            let (table, clock, hist, ops) = (table.clone(), clock.clone(), hist.clone(), ops.clone());
            handles.push(verif_sync::thread::spawn(move || {
                for op in ops {
                    let t0 = clock.fetch_add(1, O::SeqCst);
                    let r = apply(&table, op);
                    let t1 = clock.fetch_add(1, O::SeqCst);
                    hist.lock().unwrap().push((ti, op, r, t0, t1));
                }
            }));
        }
        for op in prog[0].clone() {
            let t0 = clock.fetch_add(1, O::SeqCst);
            let r = apply(&table, op);
            let t1 = clock.fetch_add(1, O::SeqCst);
            hist.lock().unwrap().push((0, op, r, t0, t1));
        }
        for h in handles {
            h.join().unwrap();
        }
        let h = hist.lock().unwrap().clone();
        // brute force against the abstract specification (not against the real table run
        // sequentially, whose replacement choice need not be a function of its inputs):
        // some order consistent with real time, and some choice of the displaced key at
        // every insertion into a full bucket, must explain every result and the final contents
        let n = h.len();
        let route = |k: u64| ((k as usize) % tables, (k as usize) % buckets);
        let mut all_keys: Vec<u64> = prefill.clone();
        for x in &h {
            let k = match x.1 {
                Op::Insert(k, _) | Op::Find(k) => k,
            };
            if !all_keys.contains(&k) {
                all_keys.push(k);
            }
        }
        let final_live: BTreeMap<u64, VerifEntry> = all_keys.iter().filter_map(|&k| table.find(k).map(|e| (k, e))).collect();
        let mut initial_live: BTreeMap<u64, VerifEntry> = BTreeMap::new();
        for &k in &prefill {
            initial_live.insert(k, entry_for(k, 7));
        }
        fn rec(
            h: &[(usize, Op, Option<VerifEntry>, u64, u64)],
            used: &mut Vec<bool>,
            live: &BTreeMap<u64, VerifEntry>,
            final_live: &BTreeMap<u64, VerifEntry>,
            route: &dyn Fn(u64) -> (usize, usize),
        ) -> bool {
            let n = h.len();
            if used.iter().all(|&u| u) {
                return live == final_live;
            }
            for i in 0..n {
                if used[i] {
                    continue;
                }
                // i may come next only if no unused op returned before i was invoked
                if (0..n).any(|j| !used[j] && j != i && h[j].4 < h[i].3) {
                    continue;
                }
                used[i] = true;
                let ok = match h[i].1 {
                    Op::Find(k) => live.get(&k).copied() == h[i].2 && rec(h, used, live, final_live, route),
                    Op::Insert(k, v) => {
                        let e = entry_for(k, v);
                        let in_bucket: Vec<u64> = live.keys().copied().filter(|x| route(*x) == route(k)).collect();
                        if live.contains_key(&k) || in_bucket.len() < VerifTable::BUCKET_SIZE {
                            let mut l2 = live.clone();
                            l2.insert(k, e);
                            rec(h, used, &l2, final_live, route)
                        } else {
                            // full bucket: exactly one other key of the bucket is displaced
                            in_bucket.iter().any(|victim| {
                                let mut l2 = live.clone();
                                l2.remove(victim);
                                l2.insert(k, e);
                                rec(h, used, &l2, final_live, route)
                            })
                        }
                    }
                };
                used[i] = false;
                if ok {
                    return true;
                }
            }
            false
        }
        let mut used = vec![false; n];
        let ok = rec(&h, &mut used, &initial_live, &final_live, &route);
        if !ok {
            sh.violation(json!({"kind": "not-linearizable", "history": h.iter().map(|x| format!("t{} {:?} -> {:?} [{}..{}]", x.0, x.1, x.2.map(|e| e.depth), x.3, x.4)).collect::<Vec<_>>(), "final_live_keys": final_live.keys().collect::<Vec<_>>()}));
        }
        if table.entries() != table.occupied_slots() || table.entries() > table.max_entries() {
            sh.violation(json!({"kind": "entry-count-drift", "entries": table.entries(), "occupied": table.occupied_slots(), "capacity": table.max_entries()}));
        }
        // every find result must be an entry stored under exactly that key
        for x in &h {
            if let (Op::Find(key), Some(e)) = (x.1, x.2) {
                let legit = (0..=9u8).any(|v| entry_for(key, v) == e);
                if !legit {
                    sh.violation(json!({"kind": "find-returned-foreign-entry", "key": key}));
                }
            }
        }
        let mut sorted = h.clone();
        sorted.sort_by_key(|x| (x.0, x.3));
        sh.outcome(sorted.iter().map(|x| format!("t{}{:?}={:?}", x.0, x.1, x.2.map(|e| e.depth))).collect::<Vec<_>>().join(";"));
    });
    r["program"] = prog_json;
    r["prefilled_keys"] = json!(prefill2.len());
    r
}

fn main() {
    let args = parse_args();
    let r = match args.harness.as_str() {
        "workers_lines" => h_workers_lines(&args),
        "workers_mate" => h_workers_mate(&args),
        "workers_history" => h_workers_history(&args),
        "analyze_protocol" => h_analyze_protocol(&args, false),
        "analyze_deterministic" => h_analyze_protocol(&args, true),
        "tt_linearizable" => h_tt_linearizable(&args),
        other => {
            eprintln!("unknown harness {}", other);
            std::process::exit(2);
        }
    };
    let _ = BTreeSet::<u8>::new();
    println!("{}", r);
}
