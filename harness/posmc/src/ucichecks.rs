//! UCI process-level checks: C07 (session contract), C18 (ucinewgame), C14 (malformed
//! input, parser level in both build flavours and process level).

use crate::report::{finish, Ctx, Local};
use crate::ucidrv::{Fail, Session, HANG};
use oracle::tb::{Tablebase, Val};
use oracle::*;
use serde_json::{json, Value};
use stateright::{Checker, Model, Property, StateRecorder};
use std::sync::atomic::{AtomicUsize, Ordering};
use std::time::Duration;

fn par_io<T: Sync, F: Fn(&T, &mut Local) + Sync>(ctx: &Ctx, items: &[T], nthreads: usize, f: F) {
    let next = AtomicUsize::new(0);
    std::thread::scope(|s| {
        for _ in 0..nthreads {
            s.spawn(|| {
                let mut l = Local::default();
                loop {
                    let i = next.fetch_add(1, Ordering::Relaxed);
                    if i >= items.len() {
                        break;
                    }
                    f(&items[i], &mut l);
                }
                ctx.merge(l);
            });
        }
    });
}

fn io_threads() -> usize {
    crate::explore::threads() * 2
}

// ------------------------------------------------------------------ the session model

#[derive(Clone, Debug, PartialEq, Eq, Hash)]
pub enum Cmd {
    Uci,
    IsReady,
    NewGame,
    Position(usize),
    Go(usize),
    Stop,
    Quit,
}

pub const POSITIONS: &[(&str, &str)] = &[
    ("position startpos", "rnbqkbnr/pppppppp/8/8/8/8/PPPPPPPP/RNBQKBNR w KQkq - 0 1"),
    ("position startpos moves e2e4 e7e5", "rnbqkbnr/pppp1ppp/8/4p3/4P3/8/PPPP1PPP/RNBQKBNR w KQkq e6 0 2"),
    ("position fen 4k3/p6p/Pp4pP/1Pp2pP1/2Pp1P2/3P4/8/4K2R w K - 0 1", "4k3/p6p/Pp4pP/1Pp2pP1/2Pp1P2/3P4/8/4K2R w K - 0 1"),
    ("position fen 4k3/p6p/Pp4pP/1Pp2pP1/2Pp1P2/3P4/8/4K2R w - - 0 1", "4k3/p6p/Pp4pP/1Pp2pP1/2Pp1P2/3P4/8/4K2R w - - 0 1"),
    ("position fen 7k/5Q2/6K1/8/8/8/8/8 b - - 0 1", "7k/5Q2/6K1/8/8/8/8/8 b - - 0 1"),
    ("position fen 4k3/8/8/3pP3/8/8/8/4K3 w - d6 0 1", "4k3/8/8/3pP3/8/8/8/4K3 w - d6 0 1"),
    ("position fen 4k3/8/8/3pP3/8/8/8/4K3 w - - 0 1", "4k3/8/8/3pP3/8/8/8/4K3 w - - 0 1"),
    ("position fen 8/8/8/8/8/k2r4/8/K7 b - - 4 3", "8/8/8/8/8/k2r4/8/K7 b - - 4 3"),
    ("position fen 7k/6Q1/6K1/8/8/8/8/8 b - - 0 1", "7k/6Q1/6K1/8/8/8/8/8 b - - 0 1"),
    ("position fen 8/4P1k1/8/8/8/8/8/4K3 w - - 0 1", "8/4P1k1/8/8/8/8/8/4K3 w - - 0 1"),
    ("position fen 4k3/8/8/8/8/8/5p2/4K3 b - - 0 1 moves f2f1q e1d2", "4k3/8/8/8/8/8/3K4/5q2 b - - 1 2"),
];

pub const GOS: &[&str] = &["go depth 1", "go depth 3", "go movetime 200", "go movetime 0", "go depth 30", "go"];

impl Cmd {
    pub fn text(&self) -> String {
        match self {
            Cmd::Uci => "uci".into(),
            Cmd::IsReady => "isready".into(),
            Cmd::NewGame => "ucinewgame".into(),
            Cmd::Position(i) => POSITIONS[*i].0.into(),
            Cmd::Go(i) => GOS[*i].into(),
            Cmd::Stop => "stop".into(),
            Cmd::Quit => "quit".into(),
        }
    }
    fn collecting(&self) -> bool {
        matches!(self, Cmd::NewGame | Cmd::Position(_) | Cmd::Go(_) | Cmd::Stop | Cmd::Quit)
    }
}

/// Abstract session state; the path is part of the state so that the explorer can not
/// merge two histories (every state is one command trace).
#[derive(Clone, Debug, PartialEq, Eq, Hash)]
pub struct UState {
    pub path: Vec<Cmd>,
    /// index into POSITIONS of the current position (None = the initial start position)
    pub pos: Option<usize>,
    /// a `go` whose bestmove is still owed at the next collecting command
    pub owed: bool,
    pub quit: bool,
}

pub struct UModel {
    pub alphabet: Vec<Cmd>,
    pub max_len: usize,
}

pub fn model_pos(pos: Option<usize>) -> Pos {
    match pos {
        None => Pos::startpos(),
        Some(i) => Pos::from_fen(POSITIONS[i].1).unwrap(),
    }
}

impl Model for UModel {
    type State = UState;
    type Action = Cmd;
    fn init_states(&self) -> Vec<UState> {
        vec![UState { path: vec![], pos: None, owed: false, quit: false }]
    }
    fn actions(&self, s: &UState, out: &mut Vec<Cmd>) {
        if s.quit || s.path.len() >= self.max_len {
            return;
        }
        out.extend(self.alphabet.iter().cloned());
    }
    fn next_state(&self, s: &UState, a: Cmd) -> Option<UState> {
        let mut n = s.clone();
        n.path.push(a.clone());
        if a.collecting() {
            n.owed = false;
        }
        match a {
            Cmd::Position(i) => n.pos = Some(i),
            Cmd::Go(_) => n.owed = model_pos(n.pos).has_legal_move(),
            Cmd::Quit => n.quit = true,
            _ => {}
        }
        Some(n)
    }
    fn properties(&self) -> Vec<Property<Self>> {
        vec![Property::always("trace well-formed", |m, s: &UState| s.path.len() <= m.max_len)]
    }
}

fn enumerate_paths(alphabet: Vec<Cmd>, max_len: usize) -> Vec<UState> {
    let (rec, acc) = StateRecorder::new_with_accessor();
    let c = UModel { alphabet, max_len }.checker().threads(4).visitor(rec).spawn_bfs().join();
    assert!(c.discoveries().is_empty());
    let mut v: Vec<UState> = acc();
    v.sort_by_key(|s| (s.path.len(), format!("{:?}", s.path)));
    v
}

fn is_bestmove(l: &str) -> bool {
    l.starts_with("bestmove")
}

struct Window {
    go_index: usize,
    pos: Pos,
    expected: usize,
    seen: Vec<String>,
}

/// Replays one command trace on a fresh process and compares with the model.
/// `wait`: timing answer (true = wait for `bestmove` after each `go` that owes one).
pub fn replay_trace(ctx: &Ctx, st: &UState, wait: bool, eof_instead_of_quit: bool, l: &mut Local) {
    let trace: Vec<String> = st.path.iter().map(|c| c.text()).collect();
    let input = format!("{} | timing={}", trace.join("; "), if wait { "wait" } else { "immediate" });
    let mut s = Session::spawn();
    let mut model = UModel { alphabet: vec![], max_len: usize::MAX }.init_states().remove(0);
    let m = UModel { alphabet: vec![], max_len: usize::MAX };
    let mut window: Option<Window> = None;
    let mut closed: Vec<Window> = Vec::new();
    let viol = |kind: &str, detail: Value, s: &Session| {
        ctx.violation(kind, input.clone(), json!({"trace": trace, "timing": if wait { "wait" } else { "immediate" }, "detail": detail, "transcript": s.transcript}));
    };
    l.inc("traces");
    for (ci, cmd) in st.path.iter().enumerate() {
        let text = cmd.text();
        l.inc("commands");
        if *cmd == Cmd::Quit {
            break;
        }
        // `isready` itself is sent by the barrier below (one readyok per isready)
        if *cmd != Cmd::IsReady && !s.send(&text) {
            viol("process-died", json!({"at": text}), &s);
            return;
        }
        model = m.next_state(&model, cmd.clone()).unwrap();
        let mut lines: Vec<String> = Vec::new();
        if *cmd == Cmd::Uci {
            match s.read_until(|l| l == "uciok", HANG) {
                Ok(ls) => {
                    if !ls.iter().any(|l| l.starts_with("id name")) || !ls.iter().any(|l| l.starts_with("id author")) {
                        viol("uci-not-answered", json!({"lines": ls}), &s);
                        return;
                    }
                    lines.extend(ls);
                }
                Err((f, ls)) => {
                    viol("uci-not-answered", json!({"failure": format!("{:?}", f), "lines": ls}), &s);
                    return;
                }
            }
        }
        let new_window = if let Cmd::Go(_) = cmd {
            let p = model_pos(model.pos);
            Some(Window { go_index: ci, expected: p.has_legal_move() as usize, pos: p, seen: vec![] })
        } else {
            None
        };
        if let (true, Some(w)) = (wait, &new_window) {
            if w.expected > 0 {
                // the search must end by itself: depth reached, time up (default 4 s)
                let extra = if window.as_ref().map(|w| w.seen.len() < w.expected).unwrap_or(false) { 2 } else { 1 };
                let mut got = 0;
                loop {
                    match s.read_until(is_bestmove, Duration::from_secs(20)) {
                        Ok(ls) => {
                            lines.extend(ls);
                            got += 1;
                            if got >= extra {
                                break;
                            }
                        }
                        Err((f, ls)) => {
                            lines.extend(ls);
                            viol("no-bestmove-in-time", json!({"go": text, "failure": format!("{:?}", f)}), &s);
                            return;
                        }
                    }
                }
            }
        }
        match s.barrier(HANG) {
            Ok(ls) => lines.extend(ls),
            Err((f, ls)) => {
                let kind = match f {
                    Fail::Timeout(_) => "isready-not-answered",
                    Fail::Closed(_) => "process-died",
                };
                viol(kind, json!({"after": text, "lines": ls}), &s);
                return;
            }
        }
        let bms: Vec<String> = lines.iter().filter(|l| is_bestmove(l)).cloned().collect();
        let mut bms = bms.into_iter();
        if cmd.collecting() {
            if let Some(mut w) = window.take() {
                if new_window.is_some() {
                    while w.seen.len() < w.expected {
                        match bms.next() {
                            Some(b) => w.seen.push(b),
                            None => break,
                        }
                    }
                } else {
                    w.seen.extend(bms.by_ref());
                }
                closed.push(w);
            }
            if let Some(mut w) = new_window {
                w.seen.extend(bms.by_ref());
                window = Some(w);
            }
        } else if let Some(w) = window.as_mut() {
            w.seen.extend(bms.by_ref());
        }
        let stray: Vec<String> = bms.collect();
        if !stray.is_empty() {
            viol("bestmove-without-go", json!({"lines": stray}), &s);
            return;
        }
    }
    // quit / end of input
    let ends_with_quit = st.path.last() == Some(&Cmd::Quit);
    if ends_with_quit && !eof_instead_of_quit {
        s.send("quit");
    }
    let transcript_before = s.transcript.clone();
    let (rest, code, _err, transcript) = s.finish(HANG);
    let _ = transcript_before;
    let tail_bms: Vec<String> = rest.iter().filter(|l| is_bestmove(l)).cloned().collect();
    if let Some(mut w) = window.take() {
        w.seen.extend(tail_bms);
        closed.push(w);
    } else if !tail_bms.is_empty() {
        ctx.violation("bestmove-without-go", input.clone(), json!({"trace": trace, "lines": tail_bms, "transcript": transcript}));
        return;
    }
    if code != Some(0) {
        ctx.violation("exit-status", input.clone(), json!({"trace": trace, "status": code, "transcript": transcript}));
        return;
    }
    for w in closed {
        l.inc("go_windows");
        if w.seen.len() != w.expected {
            ctx.violation(
                if w.seen.len() < w.expected { "bestmove-missing" } else { "bestmove-duplicated" },
                input.clone(),
                json!({"trace": trace, "timing": if wait { "wait" } else { "immediate" }, "go_index": w.go_index, "position": w.pos.fen(), "expected": w.expected, "seen": w.seen, "transcript": transcript}),
            );
            return;
        }
        for b in &w.seen {
            let mv = b.split_whitespace().nth(1).unwrap_or("");
            l.inc("bestmoves_checked");
            if w.pos.find_lan(mv).is_none() {
                ctx.violation(
                    "illegal-bestmove",
                    input.clone(),
                    json!({"trace": trace, "timing": if wait { "wait" } else { "immediate" }, "go_index": w.go_index, "position": w.pos.fen(), "bestmove": b, "transcript": transcript}),
                );
                return;
            }
        }
    }
    if ctx.sample_count() < 3 && st.path.len() >= 3 {
        ctx.sample(json!({"trace": trace, "timing": if wait { "wait" } else { "immediate" }, "transcript": transcript}));
    }
}

/// `position ... moves ...` followed by `.state`: the printed FEN must be the model's.
fn tracking_batch(ctx: &Ctx, batch: &[(String, String)], l: &mut Local) {
    let mut s = Session::spawn();
    for (cmd, want) in batch {
        l.inc("tracking_commands");
        s.send(cmd);
        s.send(".state");
        if let Err((f, _)) = s.barrier(HANG) {
            ctx.violation("process-died", cmd.clone(), json!({"command": cmd, "failure": format!("{:?}", f), "transcript": s.transcript.iter().rev().take(20).collect::<Vec<_>>()}));
            return;
        }
        let block = s.read_err_until(|l| l.starts_with("https://lichess.org/editor"), Duration::from_secs(10));
        let fen = block.as_ref().and_then(|b| b.iter().find(|l| l.trim().split(' ').count() == 6 && l.contains('/')).map(|l| l.trim().to_string()));
        match fen {
            Some(f) if f == *want => {}
            other => {
                ctx.violation("position-tracking-mismatch", cmd.clone(), json!({"command": cmd, "expected": want, "actual": other}));
                return;
            }
        }
    }
    let (_, code, _, _) = s.finish(HANG);
    if code != Some(0) {
        ctx.violation("exit-status", "tracking batch", json!({"status": code}));
    }
}

pub fn run_c07(ctx: &Ctx) -> i32 {
    let quick = ctx.quick();
    // alphabet: menus are smaller in the quick tier
    let pos_menu: Vec<usize> = if quick { vec![1, 2, 3, 4, 7, 9] } else { (0..POSITIONS.len()).collect() };
    let go_menu: Vec<usize> = if quick { vec![0, 1, 2] } else { vec![0, 1, 2, 3, 4, 5] };
    let mut alphabet: Vec<Cmd> = vec![Cmd::NewGame, Cmd::Stop];
    alphabet.extend(pos_menu.iter().map(|&i| Cmd::Position(i)));
    alphabet.extend(go_menu.iter().map(|&i| Cmd::Go(i)));
    let alphabet_q = alphabet.clone();
    alphabet.push(Cmd::Quit);
    alphabet.push(Cmd::IsReady);
    alphabet.push(Cmd::Uci);
    let max_len = 3;
    let mut states = enumerate_paths(if quick { alphabet_q.clone() } else { alphabet.clone() }, max_len);
    // length-4 paths of the shape position, go, position, go (where artifact reuse across
    // `position` commands lives), complete over the menus
    for &p1 in &pos_menu {
        for &g1 in &go_menu {
            for &p2 in &pos_menu {
                for &g2 in &go_menu {
                    let path = vec![Cmd::Position(p1), Cmd::Go(g1), Cmd::Position(p2), Cmd::Go(g2)];
                    let m = UModel { alphabet: vec![], max_len: usize::MAX };
                    let mut s = m.init_states().remove(0);
                    for c in path {
                        s = m.next_state(&s, c).unwrap();
                    }
                    states.push(s);
                }
            }
        }
    }
    if !quick {
        // all length-4 paths over the quick tier's alphabet (11 commands)
        let mut small: Vec<Cmd> = vec![Cmd::NewGame, Cmd::Stop];
        small.extend([1usize, 2, 3, 4, 7, 9].iter().map(|&i| Cmd::Position(i)));
        small.extend([0usize, 1, 2].iter().map(|&i| Cmd::Go(i)));
        let extra = enumerate_paths(small, 4);
        states.extend(extra.into_iter().filter(|s| s.path.len() == 4));
    }
    if quick {
        // a few traces with the remaining commands
        let m = UModel { alphabet: vec![], max_len: usize::MAX };
        for path in [
            vec![Cmd::Uci, Cmd::IsReady, Cmd::Position(2), Cmd::Go(1), Cmd::Quit],
            vec![Cmd::Uci, Cmd::Position(0), Cmd::Go(0), Cmd::Quit],
            vec![Cmd::Position(2), Cmd::Go(4), Cmd::IsReady, Cmd::Stop],
            vec![Cmd::Position(2), Cmd::Go(5), Cmd::Quit],
            vec![Cmd::Position(7), Cmd::Go(3), Cmd::Go(3)],
        ] {
            let mut s = m.init_states().remove(0);
            for c in path {
                s = m.next_state(&s, c).unwrap();
            }
            states.push(s);
        }
    }
    // only traces that contain a `go` say something about bestmove; the others still check
    // liveness and exit status but are cheap
    let mut jobs: Vec<(usize, bool, bool)> = Vec::new();
    for (i, s) in states.iter().enumerate() {
        let has_go = s.path.iter().any(|c| matches!(c, Cmd::Go(_)));
        jobs.push((i, false, i % 2 == 0));
        if has_go {
            jobs.push((i, true, i % 2 == 1));
        }
    }
    ctx.add("model_paths", states.len() as u64);
    par_io(ctx, &jobs, io_threads(), |&(i, wait, eof), l| replay_trace(ctx, &states[i], wait, eof, l));

    // liveness while a search runs: `isready` (and `uci`) must be answered at once, before
    // the search's bestmove, and `stop` must then produce the bestmove promptly
    {
        let cases: Vec<(usize, &str, &str)> = [2usize, 3, 5]
            .iter()
            .flat_map(|&p| [(p, "go movetime 3000", "isready"), (p, "go movetime 3000", "uci"), (p, "go", "isready")])
            .collect();
        par_io(ctx, &cases, cases.len(), |&(pi, go, probe), l| {
            l.inc("liveness_sessions");
            let mut s = Session::spawn();
            s.send(POSITIONS[pi].0);
            if s.barrier(HANG).is_err() {
                ctx.violation("process-died", POSITIONS[pi].0, json!({}));
                return;
            }
            s.send(go);
            std::thread::sleep(Duration::from_millis(150));
            let t0 = std::time::Instant::now();
            s.send(probe);
            let answer = if probe == "uci" { "uciok" } else { "readyok" };
            let r = s.read_until(|l| l == answer, Duration::from_millis(1500));
            let trace = vec![POSITIONS[pi].0.to_string(), go.to_string(), probe.to_string()];
            match r {
                Ok(lines) => {
                    if lines.iter().any(|l| is_bestmove(l)) {
                        ctx.violation("probe-answered-only-after-bestmove", trace.join("; "), json!({"trace": trace, "lines": lines, "latency_ms": t0.elapsed().as_millis() as u64}));
                        return;
                    }
                }
                Err((f, lines)) => {
                    ctx.violation("no-answer-while-search-runs", trace.join("; "), json!({"trace": trace, "failure": format!("{:?}", f), "lines": lines, "explanation": "isready/uci sent 150 ms into a search of at least 3 s was not answered within 1.5 s"}));
                    return;
                }
            }
            s.send("stop");
            if s.read_until(is_bestmove, Duration::from_secs(5)).is_err() {
                ctx.violation("no-bestmove-after-stop", trace.join("; "), json!({"trace": trace, "transcript": s.transcript}));
                return;
            }
            let (_, code, _, _) = s.finish(HANG);
            if code != Some(0) {
                ctx.violation("exit-status", trace.join("; "), json!({"status": code}));
            }
        });
    }
    // position tracking: depth-first walk over every move path of length <= 3 (quick: the
    // third ply strided) from the start position and length <= 2 from special-rule roots.
    // After each subtree the parent's `position` command is sent again (a take-back: the
    // new move list is a strict prefix of the previous one), so histories of `position`
    // commands in both directions are covered, not only growing move lists.
    let mut cmds: Vec<(String, String)> = Vec::new();
    let mut batch_starts: Vec<usize> = Vec::new();
    {
        fn walk(base: &str, base_is_startpos: bool, path: &mut Vec<String>, p: &Pos, depth: usize, max: usize, stride: usize, counter: &mut usize, out: &mut Vec<(String, String)>) {
            let cmd = if path.is_empty() { base.to_string() } else { format!("{} moves {}", base, path.join(" ")) };
            out.push((cmd.clone(), p.fen()));
            if depth == max {
                return;
            }
            let mut any = false;
            for (m, n) in p.legal() {
                if depth + 1 == max && max >= 3 {
                    *counter += 1;
                    if *counter % stride != 0 {
                        continue;
                    }
                }
                path.push(m.lan());
                walk(base, base_is_startpos, path, &n, depth + 1, max, stride, counter, out);
                path.pop();
                any = true;
            }
            if any {
                // take-back to this node
                out.push((cmd, p.fen()));
            }
        }
        let root = Pos::startpos();
        let mut counter = 0usize;
        for (m1, n1) in root.legal() {
            batch_starts.push(cmds.len());
            let mut path = vec![m1.lan()];
            walk("position startpos", true, &mut path, &n1, 1, 3, if quick { 7 } else { 1 }, &mut counter, &mut cmds);
            cmds.push(("position startpos".to_string(), root.fen()));
        }
        let mut roots: Vec<Pos> = crate::families::adversarial_roots();
        roots.extend(crate::families::perft_roots().into_iter().map(|x| x.1));
        for r in roots {
            batch_starts.push(cmds.len());
            let mut path = Vec::new();
            walk(&format!("position fen {}", r.fen()), false, &mut path, &r, 0, 2, 1, &mut counter, &mut cmds);
        }
    }
    batch_starts.push(cmds.len());
    let batches: Vec<Vec<(String, String)>> = batch_starts.windows(2).map(|w| cmds[w[0]..w[1]].to_vec()).collect();
    par_io(ctx, &batches, crate::explore::threads(), |b, l| tracking_batch(ctx, b, l));
    ctx.sample(json!({"tracking": cmds[100].0, "expected_fen": cmds[100].1}));
    let traces = ctx.get("traces");
    finish(
        ctx,
        states.len() as u64 + cmds.len() as u64,
        ctx.get("commands") + ctx.get("tracking_commands"),
        traces + ctx.get("tracking_commands"),
        true,
        "session model (stateright): every command path of length <= 3 over {ucinewgame, stop, position x menu, go x menu} (thorough: also uci/isready/quit, the full menus, and all length-4 paths over the quick alphabet) plus every position-go-position-go path; every model path - not only counterexamples - is replayed on a fresh `weechess uci` process with an isready barrier after each command and two timing answers (wait for bestmove / send the next command immediately); per go the number of bestmove lines up to the next collecting command must equal the model's prediction (1 iff the model position has a legal move) and each bestmove must be legal in the model position; exit status 0; liveness: `isready`/`uci` sent 150 ms into a search of >= 3 s must be answered within 1.5 s and before that search's bestmove, and `stop` must then yield the bestmove within 5 s. Tracking: depth-first walk over every move path of length <= 3 (quick: third ply strided 1/7) from the start position and length <= 2 from the special-rule corpus, with the parent's command re-sent after every subtree (take-backs), FEN printed by `.state` vs. the model's",
        &["the OS scheduler inside the engine process is not controlled: two timing answers per trace; finer timings are explored in-process by loom and the stop-instant enumerator", "the binary is built from the working tree with the hooks on; the hook only makes the default table size configurable (16 MiB here instead of 1 GiB)"],
    )
}

// ------------------------------------------------------------------ C18

fn last_score_and_bestmove(lines: &[String]) -> (Option<f64>, Option<String>) {
    let mut score = None;
    let mut bm = None;
    for l in lines {
        if let Some(r) = l.strip_prefix("info score cp ") {
            score = r.trim().parse::<f64>().ok();
        }
        if let Some(r) = l.strip_prefix("bestmove ") {
            bm = Some(r.trim().to_string());
        }
    }
    (score, bm)
}

/// (M, S, move): M mate in 3 plies whose only first move keeping a mate within 5 plies leads to S.
fn c18_pairs(tb: &Tablebase, count: usize) -> Vec<(Pos, Pos, String)> {
    let mut out = Vec::new();
    for k in [ROOK, QUEEN] {
        let mut found = 0;
        for (p, v) in tb.positions(k) {
            if v != Val::Win(3) {
                continue;
            }
            for q in [p.clone(), p.mirror()] {
                let good: Vec<(Mv, Pos)> = q.legal().into_iter().filter(|(_, n)| matches!(tb.probe(n), Some(Val::Loss(d)) if d <= 4)).collect();
                if good.len() == 1 && matches!(tb.probe(&good[0].1), Some(Val::Loss(2))) {
                    out.push((q.clone(), good[0].1.clone(), good[0].0.lan()));
                    found += 1;
                }
            }
            if found >= count {
                break;
            }
            let _ = &found;
        }
    }
    out
}

pub fn run_c18(ctx: &Ctx) -> i32 {
    let quick = ctx.quick();
    let tb = Tablebase::build(crate::explore::threads());
    let pairs = c18_pairs(&tb, if quick { 2 } else { 6 });
    assert!(!pairs.is_empty());
    // history alphabet before `ucinewgame`
    #[derive(Clone, Debug)]
    enum H {
        PosS,
        PosOther,
        GoWait,
        GoNoWait,
        Stop,
        IsReady,
    }
    let alpha = [H::PosS, H::GoWait, H::GoNoWait, H::Stop, H::IsReady, H::PosOther];
    let max_len = if quick { 3 } else { 4 };
    let mut hists: Vec<Vec<H>> = vec![vec![]];
    let mut frontier: Vec<Vec<H>> = vec![vec![]];
    for _ in 0..max_len {
        let mut next = Vec::new();
        for h in &frontier {
            for a in &alpha {
                let mut n = h.clone();
                n.push(a.clone());
                next.push(n);
            }
        }
        hists.extend(next.iter().cloned());
        frontier = next;
    }
    // the new game is opened by every sequence of length 2 or 3 over {ucinewgame, position M,
    // isready, stop} that contains both `ucinewgame` and `position M` (20 orders)
    let syms = ["ucinewgame", "M", "isready", "stop"];
    let mut tails: Vec<Vec<&str>> = Vec::new();
    for a in syms {
        for b in syms {
            tails.push(vec![a, b]);
            for c in syms {
                tails.push(vec![a, b, c]);
            }
        }
    }
    tails.retain(|t| t.contains(&"ucinewgame") && t.contains(&"M"));
    let n_tails = if quick { tails.len() } else { tails.len() };
    ctx.add("new_game_orders", n_tails as u64);
    let tails = &tails;
    // quick: the longest histories are combined with the three customary orders only
    let hist_lens: Vec<usize> = hists.iter().map(|h| h.len()).collect();
    let tail_is_basic: Vec<bool> = tails.iter().map(|t| t.len() == 2 || *t == vec!["M", "ucinewgame", "isready"]).collect();
    let jobs: Vec<(usize, usize, usize)> = (0..pairs.len())
        .flat_map(|p| (0..hists.len()).flat_map(move |h| (0..n_tails).map(move |t| (p, h, t))))
        .filter(|&(p, h, t)| if quick { hist_lens[h] < max_len || tail_is_basic[t] } else { hist_lens[h] < max_len || (tail_is_basic[t] && p < 2) })
        .collect();
    ctx.add("histories", hists.len() as u64);
    par_io(ctx, &jobs, io_threads(), |&(pi, hi, tail_kind), l| {
        let (m, s_pos, mv) = &pairs[pi];
        let hist = &hists[hi];
        let mut s = Session::spawn();
        let mut sent: Vec<String> = Vec::new();
        let mut searched_s = false;
        let mut at_s = false;
        for h in hist {
            let text = match h {
                H::PosS => format!("position fen {}", s_pos.fen()),
                H::PosOther => "position fen 8/8/8/4k3/8/8/3P4/4K3 w - - 0 1".to_string(),
                H::GoWait => "go depth 1".to_string(),
                H::GoNoWait => "go depth 3".to_string(),
                H::Stop => "stop".to_string(),
                H::IsReady => "isready".to_string(),
            };
            match h {
                H::PosS => at_s = true,
                H::PosOther => at_s = false,
                H::GoWait | H::GoNoWait => searched_s |= at_s,
                _ => {}
            }
            sent.push(text.clone());
            if matches!(h, H::IsReady) {
                if s.barrier(HANG).is_err() {
                    ctx.violation("process-died", sent.join("; "), json!({"trace": sent}));
                    return;
                }
                continue;
            }
            s.send(&text);
            if matches!(h, H::GoWait) {
                // S is lost for the side to move; it still has a legal move unless mated
                if s_pos.has_legal_move() || !at_s {
                    if s.read_until(is_bestmove, Duration::from_secs(20)).is_err() {
                        ctx.violation("no-bestmove-in-time", sent.join("; "), json!({"trace": sent, "transcript": s.transcript}));
                        return;
                    }
                }
            }
        }
        if searched_s {
            l.inc("histories_that_searched_S");
        }
        // the new game is opened in three orders: the customary `ucinewgame; position M`,
        // `position M; ucinewgame`, and the latter with an `isready` in between
        let tail: Vec<String> = tails[tail_kind]
            .iter()
            .map(|t| match *t {
                "M" => format!("position fen {}", m.fen()),
                other => other.to_string(),
            })
            .collect();
        for t in tail {
            sent.push(t.clone());
            if t == "isready" {
                if s.barrier(HANG).is_err() {
                    ctx.violation("process-died", sent.join("; "), json!({"trace": sent}));
                    return;
                }
            } else {
                s.send(&t);
            }
        }
        if s.barrier(HANG).is_err() {
            ctx.violation("process-died", sent.join("; "), json!({"trace": sent, "transcript": s.transcript}));
            return;
        }
        sent.push("go depth 4".into());
        s.send("go depth 4");
        let lines = match s.read_until(is_bestmove, Duration::from_secs(30)) {
            Ok(l) => l,
            Err((f, _)) => {
                ctx.violation("no-bestmove-in-time", sent.join("; "), json!({"trace": sent, "failure": format!("{:?}", f), "transcript": s.transcript}));
                return;
            }
        };
        l.inc("sessions");
        let (score, bm) = last_score_and_bestmove(&lines);
        let ok = score.map(|x| x >= 10_000.0).unwrap_or(false) && bm.as_deref() == Some(mv.as_str());
        if !ok {
            ctx.violation(
                "stale-memory-after-ucinewgame",
                format!("{} | M={}", sent.join("; "), m.fen()),
                json!({"trace": sent, "M": m.fen(), "S": s_pos.fen(), "expected_bestmove": mv, "bestmove": bm, "score_cp": score, "searched_S_before": searched_s, "transcript": s.transcript}),
            );
        }
        let (_, code, _, _) = s.finish(HANG);
        if code != Some(0) {
            ctx.violation("exit-status", sent.join("; "), json!({"status": code}));
        }
    });
    // table staleness: with S recorded, a search of M stores "no mate" for M (its only fast
    // mating move is a repetition). After `ucinewgame` a position M2 that reaches M two plies
    // below the root (M2 mates in 5 plies, one defence leads to M) must still be recognised
    // as a win at depth 6, as in a fresh process.
    {
        use std::collections::HashMap;
        let all_pairs = c18_pairs(&tb, usize::MAX);
        let by_key: HashMap<Key, usize> = all_pairs.iter().enumerate().map(|(i, x)| (x.0.key(), i)).collect();
        let mut triples: Vec<(Pos, usize)> = Vec::new();
        'outer: for k in [ROOK, QUEEN] {
            for (p, v) in tb.positions(k) {
                if v != Val::Win(5) {
                    continue;
                }
                for q in [p.clone(), p.mirror()] {
                    // the mate must hinge on M: exactly one first move wins within 9 plies
                    // (so no other mate is within reach of a depth-6 search with its check
                    // extensions), and that move leads to X
                    let succ = q.legal();
                    if succ.iter().filter(|(_, x)| matches!(tb.probe(x), Some(Val::Loss(n)) if n <= 8)).count() != 1 {
                        continue;
                    }
                    for (_, x) in succ {
                        if !matches!(tb.probe(&x), Some(Val::Loss(4))) {
                            continue;
                        }
                        for (_, m) in x.legal() {
                            if let Some(&pi) = by_key.get(&m.key()) {
                                triples.push((q.clone(), pi));
                                if triples.len() >= if quick { 6 } else { 24 } {
                                    break 'outer;
                                }
                            }
                        }
                    }
                }
            }
        }
        ctx.add("table_staleness_triples", triples.len() as u64);
        if let Some((m2, pi)) = triples.first() {
            ctx.sample(json!({"table_staleness": {"M2": m2.fen(), "M": all_pairs[*pi].0.fen(), "S": all_pairs[*pi].1.fen()}}));
        }
        par_io(ctx, &triples, io_threads(), |(m2, pi), l| {
            let (m, s_pos, _) = &all_pairs[*pi];
            for with_history in [false, true] {
                let mut s = Session::spawn();
                let mut sent: Vec<String> = Vec::new();
                if with_history {
                    for (cmd, wait) in [
                        (format!("position fen {}", s_pos.fen()), false),
                        ("go depth 1".to_string(), s_pos.has_legal_move()),
                        (format!("position fen {}", m.fen()), false),
                        ("go depth 4".to_string(), true),
                        ("ucinewgame".to_string(), false),
                    ] {
                        sent.push(cmd.clone());
                        s.send(&cmd);
                        if wait && s.read_until(is_bestmove, Duration::from_secs(30)).is_err() {
                            ctx.violation("no-bestmove-in-time", sent.join("; "), json!({"trace": sent}));
                            return;
                        }
                    }
                }
                for cmd in [format!("position fen {}", m2.fen()), "go depth 6".to_string()] {
                    sent.push(cmd.clone());
                    s.send(&cmd);
                }
                let lines = match s.read_until(is_bestmove, Duration::from_secs(60)) {
                    Ok(l) => l,
                    Err(_) => {
                        ctx.violation("no-bestmove-in-time", sent.join("; "), json!({"trace": sent}));
                        return;
                    }
                };
                l.inc("sessions");
                let (score, bm) = last_score_and_bestmove(&lines);
                if !score.map(|x| x >= 10_000.0).unwrap_or(false) {
                    ctx.violation(
                        if with_history { "stale-table-after-ucinewgame" } else { "fresh-process-misses-mate-in-5" },
                        format!("{} | M2={}", sent.join("; "), m2.fen()),
                        json!({"trace": sent, "M2": m2.fen(), "M": m.fen(), "S": s_pos.fen(), "score_cp": score, "bestmove": bm, "transcript": s.transcript}),
                    );
                    return;
                }
                let _ = s.finish(HANG);
            }
        });
    }
    ctx.sample(json!({"M": pairs[0].0.fen(), "S": pairs[0].1.fen(), "only_move_mating_within_5_plies": pairs[0].2, "history_example": ["position fen S", "go depth 1", "stop", "ucinewgame", "position fen M", "go depth 4"]}));
    finish(
        ctx,
        (hists.len() * pairs.len()) as u64,
        ctx.get("sessions").max(1),
        ctx.get("sessions"),
        true,
        "every command history of length <= 3 (thorough 4) over {position S, position other, go depth 1 (waited), go depth 3 (not waited), stop, isready} followed by the new game opened in every order of length 2-3 over {ucinewgame, position M, isready, stop} that contains both `ucinewgame` and `position M` (20 orders; in the quick tier the longest histories are combined with the three customary orders only) and `go depth 4`, for tablebase pairs (M,S): M is a mate in 3 plies whose only first move that mates within 5 plies leads to S (both colours, rook and queen); each history is one process run; the answer must be the one a fresh process gives (the empty history is in the set): terminal winning score and that unique bestmove; table staleness: S and then M searched in the old game (M's stored result is 'no mate' because its mating move repeats S), after `ucinewgame` a position two plies above M with a mate in 5 must still be scored as a win at depth 6",
        &["seeds inside the UCI loop come from the OS; the expected answer is therefore the tablebase-unique move, not a byte-identical transcript"],
    )
}

// ------------------------------------------------------------------ C14

pub const VALID_FENS: &[&str] = &[
    "rnbqkbnr/pppppppp/8/8/8/8/PPPPPPPP/RNBQKBNR w KQkq - 0 1",
    "r3k2r/p1ppqpb1/bn2pnp1/3PN3/1p2P3/2N2Q1p/PPPBBPPP/R3K2R w KQkq - 0 1",
    "8/8/8/K2pP2r/8/8/8/7k w - d6 0 1",
    "4k3/8/8/8/8/8/8/4K2R b K - 99 100",
];

fn fen_field_mutants(f: &str) -> Vec<String> {
    let parts: Vec<&str> = f.split(' ').collect();
    let mut out: Vec<String> = Vec::new();
    let eights32 = "8".repeat(32);
    let rank_menu: Vec<String> = vec![
        eights32.clone(),
        "8".repeat(8),
        "88".into(),
        "9".into(),
        "0".into(),
        "PPPPPPPPP".into(),
        "pppppppp1".into(),
        "1p1p1p1p1".into(),
        "7".into(),
        "".into(),
        "k".into(),
        "KKKKKKKK".into(),
        "4x3".into(),
        "4é3".into(),
        "44".into(),
        "1111111111111111".into(),
        "8".repeat(300),
    ];
    // placement mutations: replace / delete / duplicate one rank
    let ranks: Vec<&str> = parts[0].split('/').collect();
    for i in 0..ranks.len() {
        for r in &rank_menu {
            let mut v: Vec<String> = ranks.iter().map(|s| s.to_string()).collect();
            v[i] = r.clone();
            let mut p: Vec<String> = parts.iter().map(|s| s.to_string()).collect();
            p[0] = v.join("/");
            out.push(p.join(" "));
        }
        let mut v: Vec<String> = ranks.iter().map(|s| s.to_string()).collect();
        v.remove(i);
        let mut p: Vec<String> = parts.iter().map(|s| s.to_string()).collect();
        p[0] = v.join("/");
        out.push(p.join(" "));
        let mut v: Vec<String> = ranks.iter().map(|s| s.to_string()).collect();
        v.insert(i, ranks[i].to_string());
        let mut p: Vec<String> = parts.iter().map(|s| s.to_string()).collect();
        p[0] = v.join("/");
        out.push(p.join(" "));
    }
    let field_menus: Vec<Vec<String>> = vec![
        vec![],
        ["w", "b", "W", "x", "", "|", "wb", "-"].iter().map(|s| s.to_string()).collect(),
        ["-", "KQkq", "K", "qkQK", "KKKK", "KQkqK", "|", "K|Q", "", "kq-", "AHah", "é"].iter().map(|s| s.to_string()).collect(),
        ["-", "e3", "e6", "a1", "h8", "i3", "e9", "e0", "e", "3", "e33", "E3", "", "é3"].iter().map(|s| s.to_string()).collect(),
        ["0", "1", "99", "100", "-1", "+1", "18446744073709551615", "18446744073709551616", "99999999999999999999999999", "1e3", "", "٣", "0x10"].iter().map(|s| s.to_string()).collect(),
        ["1", "0", "18446744073709551615", "18446744073709551616", "-1", "", "1.5", "٣"].iter().map(|s| s.to_string()).collect(),
    ];
    for (i, menu) in field_menus.iter().enumerate() {
        for m in menu {
            let mut p: Vec<String> = parts.iter().map(|s| s.to_string()).collect();
            p[i] = m.clone();
            out.push(p.join(" "));
        }
    }
    // structural: delete / duplicate a field, separators
    for i in 0..parts.len() {
        let mut p: Vec<String> = parts.iter().map(|s| s.to_string()).collect();
        p.remove(i);
        out.push(p.join(" "));
        let mut p: Vec<String> = parts.iter().map(|s| s.to_string()).collect();
        p.insert(i, parts[i].to_string());
        out.push(p.join(" "));
    }
    out.push(f.replace(' ', "\t"));
    out.push(f.replace(' ', "  "));
    out.push(format!(" {}", f));
    out.push(format!("{} ", f));
    out.push(format!("{}\n", f));
    out.push(f.to_uppercase());
    out.push(String::new());
    out
}

/// All FEN inputs of the bounded space: every string up to length 3 over a class alphabet,
/// every single mutation of the corpus, and every pair of mutations (distance 2).
pub fn fen_inputs(quick: bool) -> Vec<String> {
    let mut out: Vec<String> = Vec::new();
    let alpha: Vec<&str> = vec!["8", "/", " ", "k", "K", "w", "-", "1", "e", "é", "p", "0"];
    let mut level: Vec<String> = vec![String::new()];
    for _ in 0..3 {
        let mut next = Vec::new();
        for s in &level {
            for a in &alpha {
                next.push(format!("{}{}", s, a));
            }
        }
        out.extend(next.iter().cloned());
        level = next;
    }
    for f in VALID_FENS {
        let m1 = fen_field_mutants(f);
        out.extend(m1.iter().cloned());
        // distance 2: mutate every distance-1 mutant that still has six fields again
        for (i, m) in m1.iter().enumerate() {
            if m.split(' ').count() != 6 || m.split(' ').next().map(|b| b.split('/').count() != 8).unwrap_or(true) {
                continue;
            }
            if quick && i % 9 != 0 {
                continue;
            }
            let m2 = fen_field_mutants(m);
            out.extend(m2.into_iter().step_by(if quick { 5 } else { 1 }));
        }
    }
    out.sort();
    out.dedup();
    out
}

pub fn san_inputs(quick: bool) -> Vec<String> {
    // every string up to length L over the token-class alphabet (incl. a multi-byte character)
    let alpha: Vec<&str> = vec!["N", "K", "Q", "P", "a", "e", "h", "1", "4", "8", "x", "=", "+", "#", "O", "-", "é", "0"];
    let l = if quick { 5 } else { 6 };
    let mut out: Vec<String> = vec![String::new()];
    let mut level: Vec<String> = vec![String::new()];
    for _ in 0..l {
        let mut next = Vec::with_capacity(level.len() * alpha.len());
        for s in &level {
            for a in &alpha {
                next.push(format!("{}{}", s, a));
            }
        }
        out.extend(next.iter().cloned());
        level = next;
    }
    // longer hand-made shapes
    for s in ["O-O-O+", "O-O-O-O", "exd8=Q+", "Nbxd7#", "e8=Q=Q", "Qa1xh8=N+", "a".repeat(1000).as_str(), "é".repeat(100).as_str(), "e4\n", " e4", "e4 ", "\u{0}", "e\u{301}4"] {
        out.push(s.to_string());
    }
    out
}

/// Child mode (run in both build flavours): parse every input under catch_unwind with a
/// watchdog; prints a JSON summary.
pub fn parsechk(quick: bool) {
    use weechess_core::notation::{into_notation, try_from_notation, Fen, San};
    use weechess_core::{MoveQuery, State};
    crate::search::quiet_panics();
    let fens = fen_inputs(quick);
    let sans = san_inputs(quick);
    let failures: std::sync::Mutex<Vec<Value>> = std::sync::Mutex::new(Vec::new());
    let accepted = AtomicUsize::new(0);
    let next = AtomicUsize::new(0);
    let current: Vec<std::sync::Mutex<(String, std::time::Instant)>> = (0..crate::explore::threads()).map(|_| std::sync::Mutex::new((String::new(), std::time::Instant::now()))).collect();
    let done = std::sync::atomic::AtomicBool::new(false);
    std::thread::scope(|s| {
        // watchdog: a parse that runs longer than 5 s is a hang
        s.spawn(|| {
            while !done.load(Ordering::SeqCst) {
                std::thread::sleep(Duration::from_millis(200));
                for c in &current {
                    let g = c.lock().unwrap();
                    if !g.0.is_empty() && g.1.elapsed() > Duration::from_secs(5) {
                        println!("{}", json!({"fatal": "hang", "input": g.0}));
                        std::process::exit(0);
                    }
                }
            }
        });
        let hs: Vec<_> = (0..crate::explore::threads())
            .map(|t| {
                let (fens, sans, failures, accepted, next, current) = (&fens, &sans, &failures, &accepted, &next, &current);
                s.spawn(move || loop {
                    let i = next.fetch_add(1, Ordering::Relaxed);
                    if i >= fens.len() + sans.len() {
                        break;
                    }
                    let (is_fen, input) = if i < fens.len() { (true, &fens[i]) } else { (false, &sans[i - fens.len()]) };
                    *current[t].lock().unwrap() = (input.clone(), std::time::Instant::now());
                    let r = std::panic::catch_unwind(|| {
                        if is_fen {
                            match try_from_notation::<State, Fen>(input) {
                                Ok(st) => {
                                    // an accepted position must be writable again
                                    let _ = into_notation::<_, Fen>(&st).to_string();
                                    true
                                }
                                Err(_) => false,
                            }
                        } else {
                            try_from_notation::<MoveQuery, San>(input).is_ok()
                        }
                    });
                    match r {
                        Ok(true) => {
                            accepted.fetch_add(1, Ordering::Relaxed);
                        }
                        Ok(false) => {}
                        Err(e) => {
                            let mut f = failures.lock().unwrap();
                            if f.len() < 200 {
                                f.push(json!({"parser": if is_fen { "fen" } else { "san" }, "input": input, "panic": crate::search::panic_text(e)}));
                            }
                        }
                    }
                    current[t].lock().unwrap().0.clear();
                })
            })
            .collect();
        for h in hs {
            h.join().unwrap();
        }
        done.store(true, Ordering::SeqCst);
    });
    println!(
        "{}",
        json!({"fen_inputs": fens.len(), "san_inputs": sans.len(), "accepted": accepted.load(Ordering::Relaxed), "failures": *failures.lock().unwrap(), "profile": if cfg!(debug_assertions) { "checked (overflow checks + debug assertions)" } else { "plain release" }})
    );
}

fn uci_lines(quick: bool) -> Vec<String> {
    let mut out: Vec<String> = Vec::new();
    let toks: Vec<String> = vec![
        "e2", "e", "", "e2e", "e2e4e", "e2e4qq", "e2e4x", "e7e8k", "e7e8Q", "é2e4", "e2é4", "éé", "ééééé", "e2e4é", "0000", "a1a1", "i9j9", "e2e9", "E2E4", "e2-e4", "e2e4q", "♔e2", "e2e4\u{0}", "-", "é",
    ]
    .into_iter()
    .map(|s| s.to_string())
    .chain([format!("e2e4{}", "q".repeat(500)), "é".repeat(200)])
    .collect();
    for t in &toks {
        out.push(format!("position startpos moves {}", t));
        out.push(format!("position startpos moves e2e4 {}", t));
        out.push(format!("position startpos moves {} e7e5", t));
        out.push(format!("position fen 8/8/8/8/8/8/4P3/4K2k w - - 0 1 moves {}", t));
    }
    for f in fen_inputs(true).into_iter().step_by(if quick { 37 } else { 5 }) {
        if f.contains('\n') || f.contains('\u{0}') {
            continue;
        }
        out.push(format!("position fen {}", f));
        out.push(format!("position fen {} moves e2e4", f));
    }
    for n in ["0", "-1", "1", "99999999999999999999", "18446744073709551616", "x", "", "1.5", "é", "٣", "+3", " 3"] {
        out.push(format!("go depth {}", n));
        out.push(format!("go movetime {}", n));
        out.push(format!("go depth {} movetime {}", n, n));
        out.push(format!("go wtime {} btime {}", n, n));
    }
    for l in [
        "", " ", "\t", "position", "position fen", "position startpos moves", "position moves e2e4", "position fen moves", "position startpos startpos", "go depth", "go movetime", "go infinite", "go ponder", "go searchmoves e2e4",
        "setoption name Hash value 9999999999", "setoption", "ucinewgame now", "stop stop", "isready isready", "uci uci", "debug on", "register later", "ponderhit", ".state", ".status", ". state", "quit?", "QUIT", "é", "♔♕♖", "\u{feff}uci",
        "position startpos moves e2e4 e7e5 g1f3 b8c6 f1b5 a7a6 b5c6 d7c6 e1g1 f7f6 d2d4 e5d4 f3d4 c6c5 d4b3 d8d1 f1d1",
    ] {
        out.push(l.to_string());
    }
    out.push("x".repeat(100_000));
    out.push(format!("position startpos moves {}", "e2e4 ".repeat(5000)));
    out.push(format!("go depth {}", "9".repeat(5000)));
    out.sort();
    out.dedup();
    out
}

pub fn run_c14(ctx: &Ctx) -> i32 {
    let quick = ctx.quick();
    // (1) parser level, in both build flavours, each in its own process
    let exes = vec![
        ("checked", std::env::current_exe().unwrap().to_string_lossy().to_string()),
        ("plain-release", std::env::var("VERIF_POSMC_RELEASE").unwrap_or_else(|_| "/verif/target/verif/release/posmc".into())),
    ];
    let mut parser_inputs = 0u64;
    for (flavour, exe) in &exes {
        let out = std::process::Command::new(exe).args(["parsechk", &ctx.tier]).output().unwrap_or_else(|e| panic!("cannot run {}: {}", exe, e));
        let text = String::from_utf8_lossy(&out.stdout).to_string();
        let last = text.lines().last().unwrap_or("");
        let v: Value = match serde_json::from_str(last) {
            Ok(v) => v,
            Err(_) => {
                // the child died (stack overflow, abort): attribute it
                ctx.violation("parser-process-died", format!("{} flavour", flavour), json!({"flavour": flavour, "status": format!("{:?}", out.status), "stderr": String::from_utf8_lossy(&out.stderr).lines().rev().take(5).collect::<Vec<_>>()}));
                continue;
            }
        };
        if v.get("fatal").is_some() {
            ctx.violation("parser-hang", v["input"].as_str().unwrap_or("").to_string(), json!({"flavour": flavour, "input": v["input"]}));
            continue;
        }
        let n = v["fen_inputs"].as_u64().unwrap_or(0) + v["san_inputs"].as_u64().unwrap_or(0);
        parser_inputs += n;
        ctx.add(&format!("parser_inputs.{}", flavour), n);
        ctx.add(&format!("parser_accepted.{}", flavour), v["accepted"].as_u64().unwrap_or(0));
        for f in v["failures"].as_array().cloned().unwrap_or_default() {
            let kind = format!("{}-parser-panics", f["parser"].as_str().unwrap_or("?"));
            let input = f["input"].as_str().unwrap_or("").to_string();
            let shown = if input.len() > 200 { format!("{}... ({} bytes)", &input[..input.char_indices().nth(100).map(|x| x.0).unwrap_or(0)], input.len()) } else { input.clone() };
            ctx.violation(&kind, shown, json!({"flavour": flavour, "input": input, "panic": f["panic"]}));
        }
    }
    // (2) process level: each line L is run as `position startpos` . L . `isready`
    let lines = uci_lines(quick);
    ctx.add("uci_lines", lines.len() as u64);
    let chunks: Vec<Vec<String>> = lines.chunks(40).map(|c| c.to_vec()).collect();
    par_io(ctx, &chunks, crate::explore::threads(), |chunk, l| {
        let mut s = Session::spawn();
        for (line, ctx_i) in chunk.iter().flat_map(|l| [(l, 0usize), (l, 1usize)]) {
            l.inc("uci_lines_sent");
            // two contexts: a book position (the book answers `go` before any search starts)
            // and an out-of-book position (a `go` line really starts a search)
            s.send(if ctx_i == 0 { "position startpos" } else { "position fen 8/8/8/4k3/8/8/3P4/4K3 w - - 0 1" });
            s.send(line);
            let first = line.split_ascii_whitespace().next().unwrap_or("");
            let r = s.barrier(HANG);
            let shown: String = if line.len() > 200 { format!("{}... ({} bytes)", line.chars().take(100).collect::<String>(), line.len()) } else { line.clone() };
            if let Err((f, _)) = r {
                let kind = match f {
                    Fail::Timeout(_) => "uci-line-hangs-process",
                    Fail::Closed(_) => "uci-line-kills-process",
                };
                let old = std::mem::replace(&mut s, Session::spawn());
                let (_, code, err, _) = old.finish(Duration::from_secs(5));
                ctx.violation(kind, shown, json!({"line": line, "context": if ctx_i == 0 { "position startpos" } else { "position fen 8/8/8/4k3/8/8/3P4/4K3 w - - 0 1" }, "exit_status": code, "stderr": err.iter().rev().take(6).collect::<Vec<_>>()}));
                continue;
            }
            if first == "go" {
                s.send("stop");
                if s.barrier(HANG).is_err() {
                    let old = std::mem::replace(&mut s, Session::spawn());
                    let (_, code, err, _) = old.finish(Duration::from_secs(5));
                    ctx.violation("uci-line-kills-process", shown, json!({"line": line, "after": "stop", "exit_status": code, "stderr": err.iter().rev().take(6).collect::<Vec<_>>()}));
                    continue;
                }
            }
            if first == "quit" {
                s = Session::spawn();
            }
        }
        let (_, code, _, _) = s.finish(HANG);
        if code != Some(0) {
            ctx.violation("exit-status", "end of input after malformed lines", json!({"status": code}));
        }
    });
    ctx.sample(json!({"fen_input": format!("{}/8/8/8/8/8/8/8 w - - 0 1", "8".repeat(32)), "checked": "returns Ok or Err, no panic, < 5 s, in both build flavours"}));
    ctx.sample(json!({"uci_line": "position startpos moves e2", "checked": "process answers the following isready and exits with status 0 at end of input"}));
    finish(
        ctx,
        parser_inputs + lines.len() as u64,
        parser_inputs + ctx.get("uci_lines_sent"),
        parser_inputs + ctx.get("uci_lines_sent"),
        true,
        "parser level (run in two processes: overflow-checks+debug-assertions build and plain release build): every string of length <= 3 over a 12-symbol FEN class alphabet, every single and (quick: strided) double mutation of 4 valid FENs under a finite mutation menu (rank floods such as 32 x '8', nine pieces in a rank, field deletions/duplications, huge counters, non-ASCII, separators); every string of length <= 5 (thorough 6) over an 18-symbol SAN alphabet incl. a multi-byte character; process level: every generated UCI line (mutated move tokens, mutated FENs, bad numbers, unknown / truncated commands, over-long lines) is sent to a live `weechess uci` in two contexts (after `position startpos`, where the book answers a `go`, and after an out-of-book `position fen`), followed by `isready`; a death is attributed to the line, the process restarted, enumeration continues",
        &["'all strings' is bounded by the length / mutation-distance bounds stated in the rule", "the process-level claim is judged on the release build of the CLI (the dev profile of the CLI does not compile on this toolchain)"],
    )
}

/// Replay of a recorded UCI case (C07 / C18 traces, C14 inputs).
pub fn replay(ctx: &Ctx, v: &Value, l: &mut Local) {
    let kind = v["kind"].as_str().unwrap_or("");
    let d = &v["detail"];
    if ctx.prop == "C14" {
        if kind.ends_with("parser-panics") {
            use weechess_core::notation::{try_from_notation, Fen, San};
            let input = d["input"].as_str().unwrap_or("").to_string();
            let is_fen = kind.starts_with("fen");
            let r = std::panic::catch_unwind(|| {
                if is_fen {
                    try_from_notation::<weechess_core::State, Fen>(&input).is_ok()
                } else {
                    try_from_notation::<weechess_core::MoveQuery, San>(&input).is_ok()
                }
            });
            println!("parser result: {:?} (this binary: {})", r.as_ref().map_err(|_| "panic"), if cfg!(debug_assertions) { "checked profile" } else { "plain release" });
            if r.is_err() {
                ctx.violation(kind, input, json!({}));
            }
        } else {
            let line = d["line"].as_str().unwrap_or("").to_string();
            let mut s = Session::spawn();
            s.send("position startpos");
            s.send(&line);
            if let Err((f, _)) = s.barrier(HANG) {
                ctx.violation(kind, line.clone(), json!({"failure": format!("{:?}", f)}));
            }
            let (_, code, err, _) = s.finish(Duration::from_secs(5));
            println!("exit status {:?}; stderr tail {:?}", code, err.iter().rev().take(3).collect::<Vec<_>>());
        }
        return;
    }
    let trace: Vec<String> = d["trace"].as_array().map(|a| a.iter().filter_map(|x| x.as_str().map(|s| s.to_string())).collect()).unwrap_or_default();
    if ctx.prop == "C07" {
        // map the text back to model commands
        let m = UModel { alphabet: vec![], max_len: usize::MAX };
        let mut st = m.init_states().remove(0);
        for t in &trace {
            let cmd = if t == "uci" {
                Cmd::Uci
            } else if t == "isready" {
                Cmd::IsReady
            } else if t == "ucinewgame" {
                Cmd::NewGame
            } else if t == "stop" {
                Cmd::Stop
            } else if t == "quit" {
                Cmd::Quit
            } else if let Some(i) = POSITIONS.iter().position(|p| p.0 == t) {
                Cmd::Position(i)
            } else if let Some(i) = GOS.iter().position(|g| g == t) {
                Cmd::Go(i)
            } else {
                panic!("unknown command in trace: {}", t)
            };
            st = m.next_state(&st, cmd).unwrap();
        }
        let wait = d["timing"].as_str() == Some("wait");
        replay_trace(ctx, &st, wait, false, l);
        return;
    }
    // C18: raw trace; the last `go` must answer the expected move with a mate score
    let mut s = Session::spawn();
    let mut last: Vec<String> = Vec::new();
    for t in &trace {
        if t == "isready" {
            let _ = s.barrier(HANG);
            continue;
        }
        s.send(t);
        if t.starts_with("go depth 1") || t == trace.last().unwrap() {
            last = s.read_until(is_bestmove, Duration::from_secs(30)).unwrap_or_default();
        }
    }
    let (score, bm) = last_score_and_bestmove(&last);
    println!("score {:?} bestmove {:?} expected {:?}", score, bm, d["expected_bestmove"]);
    if !(score.map(|x| x >= 10_000.0).unwrap_or(false) && bm.as_deref() == d["expected_bestmove"].as_str()) {
        ctx.violation(kind, trace.join("; "), json!({"score": score, "bestmove": bm}));
    }
}
