//! Complete small families of positions (every member enumerated, then filtered by
//! the reference model's legality predicate) and the root corpus for bounded BFS.

use oracle::*;

pub struct Family {
    pub name: &'static str,
    pub chunks: usize,
    pub gen: Box<dyn Fn(usize, &mut Vec<Pos>) + Send + Sync>,
}

fn place(pieces: &[(u8, u8)], wtm: bool, cr: u8, ep: Option<u8>) -> Option<Pos> {
    let mut p = Pos::empty();
    for &(s, c) in pieces {
        if p.b[s as usize] != EMPTY {
            return None;
        }
        p.b[s as usize] = c;
    }
    p.wtm = wtm;
    p.cr = cr;
    p.ep = ep;
    Some(p)
}

fn push_legal(out: &mut Vec<Pos>, p: Option<Pos>) {
    if let Some(p) = p {
        if p.is_legal_position() {
            out.push(p);
        }
    }
}

const WKING: u8 = KING;
const BKING: u8 = KING | BLACK;

/// F3: K + k + one piece of any kind and colour on every square, both sides to move.
pub fn f3() -> Family {
    Family {
        name: "F3",
        chunks: 10 * 64,
        gen: Box::new(|chunk, out| {
            let wk = (chunk % 64) as u8;
            let x = chunk / 64;
            let kind = [QUEEN, ROOK, BISHOP, KNIGHT, PAWN][x % 5];
            let c = code(x < 5, kind);
            for bk in 0..64u8 {
                for xs in 0..64u8 {
                    for wtm in [true, false] {
                        push_legal(out, place(&[(wk, WKING), (bk, BKING), (xs, c)], wtm, 0, None));
                    }
                }
            }
        }),
    }
}

/// Sub-family of F3 with the extra piece restricted to one kind (both colours).
pub fn f3_kind(kind: u8, name: &'static str) -> Family {
    Family {
        name,
        chunks: 2 * 64,
        gen: Box::new(move |chunk, out| {
            let wk = (chunk % 64) as u8;
            let c = code(chunk / 64 == 0, kind);
            for bk in 0..64u8 {
                for xs in 0..64u8 {
                    for wtm in [true, false] {
                        push_legal(out, place(&[(wk, WKING), (bk, BKING), (xs, c)], wtm, 0, None));
                    }
                }
            }
        }),
    }
}

/// Fcastle: king and rook(s) at home with every non-empty rights subset, the enemy
/// king and one enemy piece of every kind on every square, optionally one blocker
/// (own or enemy knight) on a path square; both colours, both sides to move.
pub fn fcastle(with_blockers: bool) -> Family {
    // (rook squares bitmask: 1 = h-rook, 2 = a-rook, rights)
    const CONFIGS: [(u8, u8); 5] = [(1, WK), (2, WQ), (3, WK), (3, WQ), (3, WK | WQ)];
    Family {
        name: if with_blockers { "Fcastle+blockers" } else { "Fcastle" },
        chunks: 5 * 64 * 2,
        gen: Box::new(move |chunk, out| {
            let mirror = chunk % 2 == 1;
            let bk = ((chunk / 2) % 64) as u8;
            let (rooks, rights) = CONFIGS[chunk / 128];
            let mut base: Vec<(u8, u8)> = vec![(E1, WKING), (bk, BKING)];
            if rooks & 1 != 0 {
                base.push((H1, ROOK));
            }
            if rooks & 2 != 0 {
                base.push((A1, ROOK));
            }
            let mut blockers: Vec<Option<(u8, u8)>> = vec![None];
            if with_blockers {
                for s in [1u8, 2, 3, 5, 6] {
                    blockers.push(Some((s, KNIGHT)));
                    blockers.push(Some((s, KNIGHT | BLACK)));
                }
            }
            for ek in [QUEEN, ROOK, BISHOP, KNIGHT, PAWN] {
                for es in 0..64u8 {
                    for bl in &blockers {
                        for wtm in [true, false] {
                            let mut pcs = base.clone();
                            pcs.push((es, ek | BLACK));
                            if let Some(b) = bl {
                                pcs.push(*b);
                            }
                            if let Some(p) = place(&pcs, wtm, rights, None) {
                                let p = if mirror { p.mirror() } else { p };
                                if p.is_legal_position() {
                                    out.push(p);
                                }
                            }
                        }
                    }
                }
            }
            // no enemy piece at all
            for bl in &blockers {
                for wtm in [true, false] {
                    let mut pcs = base.clone();
                    if let Some(b) = bl {
                        pcs.push(*b);
                    }
                    if let Some(p) = place(&pcs, wtm, rights, None) {
                        let p = if mirror { p.mirror() } else { p };
                        if p.is_legal_position() {
                            out.push(p);
                        }
                    }
                }
            }
        }),
    }
}

/// Fep: a just-made double step next to one or two enemy pawns; both kings and one
/// slider of the side that just moved everywhere (en-passant pins, discovered check
/// along the rank, ep as the only evasion). `enemy_kings`: squares for the king of
/// the side that just moved.
pub fn fep(full: bool) -> Family {
    Family {
        name: if full { "Fep(full)" } else { "Fep" },
        chunks: 8 * 64 * 2,
        gen: Box::new(move |chunk, out| {
            let mirror = chunk % 2 == 1;
            let wk = ((chunk / 2) % 64) as u8;
            let f = (chunk / 128) as i8; // file of the black pawn that just double-stepped
            // white to move; black pawn on (f, rank 5 = index 4), target (f, index 5)
            let bp = sq_at(f, 4).unwrap();
            let target = sq_at(f, 5).unwrap();
            let bks: Vec<u8> = if full {
                (0..64).collect()
            } else {
                vec![56, 63, 60, 32, 39, 47, 7, 27]
            };
            // capturing pawns: left, right, both
            let mut caps: Vec<Vec<u8>> = Vec::new();
            if let Some(l) = sq_at(f - 1, 4) {
                caps.push(vec![l]);
            }
            if let Some(r) = sq_at(f + 1, 4) {
                caps.push(vec![r]);
            }
            if let (Some(l), Some(r)) = (sq_at(f - 1, 4), sq_at(f + 1, 4)) {
                caps.push(vec![l, r]);
            }
            for cap in &caps {
                for &bk in &bks {
                    let mut base: Vec<(u8, u8)> = vec![(wk, WKING), (bk, BKING), (bp, PAWN | BLACK)];
                    for &c in cap {
                        base.push((c, PAWN));
                    }
                    let emit = |pcs: &[(u8, u8)], out: &mut Vec<Pos>| {
                        if let Some(p) = place(pcs, true, 0, Some(target)) {
                            let p = if mirror { p.mirror() } else { p };
                            if p.is_legal_position() {
                                out.push(p);
                            }
                        }
                    };
                    emit(&base, out);
                    for sk in [QUEEN, ROOK, BISHOP] {
                        for ss in 0..64u8 {
                            let mut pcs = base.clone();
                            pcs.push((ss, sk | BLACK));
                            emit(&pcs, out);
                        }
                    }
                }
            }
        }),
    }
}

/// Fpromo: a pawn one step from promotion with 0-2 capturable pieces on the last
/// rank and an optionally blocked push square; both kings everywhere, both colours.
pub fn fpromo() -> Family {
    Family {
        name: "Fpromo",
        chunks: 8 * 64 * 2,
        gen: Box::new(|chunk, out| {
            let mirror = chunk % 2 == 1;
            let wk = ((chunk / 2) % 64) as u8;
            let f = (chunk / 128) as i8;
            let pawn = sq_at(f, 6).unwrap();
            let ahead = sq_at(f, 7).unwrap();
            for ahead_c in [EMPTY, KNIGHT | BLACK] {
                for left_c in [EMPTY, ROOK | BLACK, KNIGHT | BLACK] {
                    for right_c in [EMPTY, ROOK | BLACK, BISHOP | BLACK] {
                        let mut base: Vec<(u8, u8)> = vec![(wk, WKING), (pawn, PAWN)];
                        if ahead_c != EMPTY {
                            base.push((ahead, ahead_c));
                        }
                        if left_c != EMPTY {
                            match sq_at(f - 1, 7) {
                                Some(s) => base.push((s, left_c)),
                                None => continue,
                            }
                        }
                        if right_c != EMPTY {
                            match sq_at(f + 1, 7) {
                                Some(s) => base.push((s, right_c)),
                                None => continue,
                            }
                        }
                        for bk in 0..64u8 {
                            for wtm in [true, false] {
                                let mut pcs = base.clone();
                                pcs.push((bk, BKING));
                                if let Some(p) = place(&pcs, wtm, 0, None) {
                                    let p = if mirror { p.mirror() } else { p };
                                    if p.is_legal_position() {
                                        out.push(p);
                                    }
                                }
                            }
                        }
                    }
                }
            }
        }),
    }
}

/// F4: K + k + one white piece + one black piece. `wks`: squares of the white king.
pub fn f4(pairs: Vec<(u8, u8)>, wks: Vec<u8>, name: &'static str) -> Family {
    let n = pairs.len() * wks.len() * 64;
    Family {
        name,
        chunks: n,
        gen: Box::new(move |chunk, out| {
            let bk = (chunk % 64) as u8;
            let wk = wks[(chunk / 64) % wks.len()];
            let (a, b) = pairs[chunk / 64 / wks.len()];
            for xs in 0..64u8 {
                for ys in 0..64u8 {
                    for wtm in [true, false] {
                        push_legal(
                            out,
                            place(&[(wk, WKING), (bk, BKING), (xs, a), (ys, b | BLACK)], wtm, 0, None),
                        );
                    }
                }
            }
        }),
    }
}

/// Fmate: back-rank and edge mating nets: defending king on every edge-rank square
/// with every shield of {empty, pawn, knight} on the three squares in front, a rook
/// or queen of the attacker on every square, attacking king on a few squares.
pub fn fmate() -> Family {
    Family {
        name: "Fmate",
        chunks: 8 * 27 * 2,
        gen: Box::new(|chunk, out| {
            let mirror = chunk % 2 == 1;
            let shield = (chunk / 2) % 27;
            let kf = (chunk / 54) as i8;
            let bk = sq_at(kf, 7).unwrap();
            let mut base: Vec<(u8, u8)> = vec![(bk, BKING)];
            let mut sh = shield;
            for df in [-1i8, 0, 1] {
                let c = [EMPTY, PAWN | BLACK, KNIGHT | BLACK][sh % 3];
                sh /= 3;
                if c != EMPTY {
                    match sq_at(kf + df, 6) {
                        Some(s) => base.push((s, c)),
                        None => return,
                    }
                }
            }
            for wk in [0u8, 7, 20, 27, 36, 45, 42, 47] {
                for ak in [ROOK, QUEEN] {
                    for a in 0..64u8 {
                        for wtm in [true, false] {
                            let mut pcs = base.clone();
                            pcs.push((wk, WKING));
                            pcs.push((a, ak));
                            if let Some(p) = place(&pcs, wtm, 0, None) {
                                let p = if mirror { p.mirror() } else { p };
                                if p.is_legal_position() {
                                    out.push(p);
                                }
                            }
                        }
                    }
                }
            }
        }),
    }
}

/// Fdouble: the side to move is in check from two enemy pieces at once (every pair of
/// checker kinds on every pair of squares from which they attack the king), the king on
/// corner / edge / near-edge / central squares, optionally one own piece on a neighbouring
/// square; the enemy king on a menu of squares. Double-check evasion: only king moves,
/// including captures of an undefended checker.
pub fn fdouble(full: bool) -> Family {
    const KSQ: [u8; 8] = [7, 6, 15, 14, 4, 39, 27, 0];
    Family {
        name: if full { "Fdouble(full)" } else { "Fdouble" },
        chunks: KSQ.len() * 16 * 2,
        gen: Box::new(move |chunk, out| {
            let mirror = chunk % 2 == 1;
            let pair = (chunk / 2) % 16;
            let wk = KSQ[chunk / 32];
            let kinds = [QUEEN, ROOK, BISHOP, KNIGHT];
            let (k1, k2) = (kinds[pair / 4], kinds[pair % 4]);
            // squares from which a piece of the kind attacks the king on an otherwise empty board
            let from_squares = |kind: u8| -> Vec<u8> {
                let mut p = Pos::empty();
                p.b[wk as usize] = KING;
                (0..64u8)
                    .filter(|&s| s != wk)
                    .filter(|&s| {
                        let mut q = p.clone();
                        q.b[s as usize] = kind | BLACK;
                        q.piece_attacks(s) & (1u64 << wk) != 0
                    })
                    .collect()
            };
            let (s1, s2) = (from_squares(k1), from_squares(k2));
            let bks: Vec<u8> = if full { (0..64).collect() } else { vec![56, 63, 59, 32, 24, 0, 7, 36] };
            let mut blockers: Vec<Option<(u8, u8)>> = vec![None];
            let (f, r) = (file_of(wk), rank_of(wk));
            for df in -1..=1 {
                for dr in -1..=1 {
                    if (df, dr) != (0, 0) {
                        if let Some(s) = sq_at(f + df, r + dr) {
                            blockers.push(Some((s, ROOK)));
                            if full {
                                blockers.push(Some((s, PAWN)));
                            }
                        }
                    }
                }
            }
            for &a in &s1 {
                for &b in &s2 {
                    if a >= b && k1 == k2 {
                        continue;
                    }
                    if a == b {
                        continue;
                    }
                    for &bk in &bks {
                        for bl in &blockers {
                            let mut pcs: Vec<(u8, u8)> = vec![(wk, WKING), (bk, BKING), (a, k1 | BLACK), (b, k2 | BLACK)];
                            if let Some(x) = bl {
                                pcs.push(*x);
                            }
                            if let Some(p) = place(&pcs, true, 0, None) {
                                // keep genuine double checks only
                                if p.piece_attacks(a) & (1u64 << wk) == 0 || p.piece_attacks(b) & (1u64 << wk) == 0 {
                                    continue;
                                }
                                let p = if mirror { p.mirror() } else { p };
                                if p.is_legal_position() {
                                    out.push(p);
                                }
                            }
                        }
                    }
                }
            }
        }),
    }
}

/// Fpin: the side to move has its king and one pawn, the pawn stands on a line (rank, file
/// or diagonal) between the king and an enemy slider that moves along that line, so it is
/// pinned (along a rank or diagonal it may not push even when the square ahead is empty);
/// the enemy king stands two squares away from the pinned side's king (or on one of three far squares) and one
/// more enemy piece of any kind stands on any square. Contains the stalemates whose only
/// pseudo-legal move is the push of a pinned pawn.
pub fn fpin(full: bool) -> Family {
    const KSQ: [u8; 10] = [0, 1, 8, 7, 4, 3, 24, 9, 27, 63];
    let ksq: Vec<u8> = if full { (0..64).collect() } else { KSQ.to_vec() };
    const DIRS: [(i8, i8); 8] = [(1, 0), (-1, 0), (0, 1), (0, -1), (1, 1), (1, -1), (-1, 1), (-1, -1)];
    Family {
        name: if full { "Fpin(full)" } else { "Fpin" },
        chunks: ksq.len() * 8 * 2,
        gen: Box::new(move |chunk, out| {
            let mirror = chunk % 2 == 1;
            let (df, dr) = DIRS[(chunk / 2) % 8];
            let wk = ksq[chunk / 16];
            let (f, r) = (file_of(wk), rank_of(wk));
            let reach = if full { 7 } else { 3 };
            let sliders: Vec<u8> = if df == 0 || dr == 0 { vec![ROOK, QUEEN] } else { vec![BISHOP, QUEEN] };
            let mut bks: Vec<u8> = (0..64u8).filter(|&s| (file_of(s) - f).abs().max((rank_of(s) - r).abs()) == 2).collect();
            bks.extend([63u8, 0, 36].iter().filter(|&&s| (file_of(s) - f).abs().max((rank_of(s) - r).abs()) > 2));
            for pd in 1..=reach {
                let Some(ps) = sq_at(f + df * pd, r + dr * pd) else { break };
                if rank_of(ps) == 0 || rank_of(ps) == 7 {
                    continue;
                }
                for sd in 1..=reach {
                    let Some(ss) = sq_at(f + df * (pd + sd), r + dr * (pd + sd)) else { break };
                    for &sk in &sliders {
                        for &bk in &bks {
                            for xk in [QUEEN, ROOK, BISHOP, KNIGHT, PAWN] {
                                for xs in 0..64u8 {
                                    // the squares between king, pawn and slider stay empty
                                    let on_line = (1..pd + sd).any(|d| sq_at(f + df * d, r + dr * d) == Some(xs));
                                    if on_line || (xk == PAWN && (rank_of(xs) == 0 || rank_of(xs) == 7)) {
                                        continue;
                                    }
                                    if let Some(p) = place(&[(wk, WKING), (ps, PAWN), (ss, sk | BLACK), (bk, BKING), (xs, xk | BLACK)], true, 0, None) {
                                        let p = if mirror { p.mirror() } else { p };
                                        if p.is_legal_position() {
                                            out.push(p);
                                        }
                                    }
                                }
                            }
                        }
                    }
                }
            }
        }),
    }
}

/// Arbitrary placements for the attack-set property: every ordered pair of pieces of
/// any kind/colour on any squares (kings not required, pawns on any rank), plus a
/// third piece from a small menu on every remaining square when `three` is set.
pub fn farbitrary(three: bool, menu3: Vec<u8>) -> Family {
    Family {
        name: if three { "Farbitrary3" } else { "Farbitrary2" },
        chunks: 12 * 64,
        gen: Box::new(move |chunk, out| {
            let codes: Vec<u8> = (1..=6).chain(9..=14).collect();
            let a = codes[chunk / 64];
            let asq = (chunk % 64) as u8;
            if !three {
                // single piece and all pairs
                out.push(place(&[(asq, a)], true, 0, None).unwrap());
                for &b in &codes {
                    for bsq in 0..64u8 {
                        if let Some(p) = place(&[(asq, a), (bsq, b)], true, 0, None) {
                            out.push(p);
                        }
                    }
                }
            } else {
                for &b in &menu3 {
                    for bsq in 0..64u8 {
                        for &c in &menu3 {
                            for csq in (bsq + 1)..64u8 {
                                if let Some(p) = place(&[(asq, a), (bsq, b), (csq, c)], true, 0, None) {
                                    out.push(p);
                                }
                            }
                        }
                    }
                }
            }
        }),
    }
}

/// Fcorner roots: both sides with all castling rights, plus one extra piece that can
/// reach / capture a corner rook; bounded BFS from these follows the rights for plies.
pub fn fcorner_roots() -> Vec<Pos> {
    let mut out = Vec::new();
    let base = Pos::from_fen("r3k2r/8/8/8/8/8/8/R3K2R w KQkq - 0 1").unwrap();
    for wtm in [true, false] {
        let mut b = base.clone();
        b.wtm = wtm;
        if b.is_legal_position() {
            out.push(b.clone());
        }
        for k in [QUEEN, ROOK, BISHOP, KNIGHT] {
            for s in 8..56u8 {
                for white in [true, false] {
                    let mut p = b.clone();
                    p.b[s as usize] = code(white, k);
                    if p.is_legal_position() {
                        out.push(p);
                    }
                }
            }
        }
    }
    out
}

pub const ADVERSARIAL_FENS: &[&str] = &[
    // en-passant pins and discovered checks
    "8/8/8/K2pP2r/8/8/8/7k w - d6 0 1",
    "8/8/8/8/k2Pp2R/8/8/7K b - d3 0 1",
    "8/8/3k4/8/2pP4/8/8/3KR3 b - d3 0 1",
    "4k3/8/8/2pP4/8/8/B7/4K3 w - c6 0 1",
    "8/6bb/8/8/R1pP2k1/4P3/P7/K7 b - d3 0 1",
    // ep capture as the only check evasion
    "8/8/8/2k5/3Pp3/8/8/4K3 b - d3 0 1",
    "8/8/8/4k3/3Pp3/8/8/4K3 b - d3 0 1",
    // double check
    "4k3/8/8/8/8/8/4N3/4RK2 w - - 0 1",
    "r3k2r/8/8/8/8/2n5/3N4/R2QK2R b KQkq - 0 1",
    // underpromotion with capture, both colours
    "1n2k3/P7/8/8/8/8/7p/4K1N1 w - - 0 1",
    "1n2k3/P7/8/8/8/8/7p/4K1N1 b - - 0 1",
    "r1b1k2r/1P4P1/8/8/8/8/1p4p1/R1B1K2R w KQkq - 0 1",
    "r1b1k2r/1P4P1/8/8/8/8/1p4p1/R1B1K2R b KQkq - 0 1",
    // castling after / around rook capture, attacked b1/b8
    "r3k2r/8/8/8/8/8/6b1/R3K2R w KQkq - 0 1",
    "r3k2r/1B6/8/8/8/8/8/R3K2R b KQkq - 0 1",
    "r3k2r/8/8/8/8/8/8/RN2K2R w KQkq - 0 1",
    "1r2k2r/8/8/8/8/8/8/R3K2R w KQk - 0 1",
    "r3k2r/p1ppqpb1/bn2pnp1/3PN3/1p2P3/2N2Q2/PPPBBPpP/R3K2R w KQkq - 0 1",
    // stalemate and checkmate roots
    "7k/5Q2/6K1/8/8/8/8/8 b - - 0 1",
    "7k/6Q1/6K1/8/8/8/8/8 b - - 0 1",
    "6k1/5ppp/8/8/8/8/8/R3K3 w Q - 0 1",
    "3R2k1/5ppp/8/8/8/8/8/4K3 b - - 0 1",
    // crowded middlegames
    "r1bqk2r/pp2bppp/2n1pn2/2pp4/3P1B2/2P1PN2/PP1N1PPP/R2QKB1R w KQkq - 0 7",
    "2kr3r/pppq1ppp/2n1bn2/2bpp3/4P3/2NP1NP1/PPP1QPBP/R1B2RK1 b - - 4 9",
    "8/2p5/3p4/KP5r/1R2Pp1k/8/6P1/8 b - e3 0 1",
    "rnbqkb1r/ppppp1pp/7n/4Pp2/8/8/PPPP1PPP/RNBQKBNR w KQkq f6 0 3",
];

pub fn perft_roots() -> Vec<(String, Pos)> {
    oracle::selftest::PERFT_SUITE
        .iter()
        .map(|(n, f, _)| (n.to_string(), Pos::from_fen(f).unwrap()))
        .collect()
}

pub fn adversarial_roots() -> Vec<Pos> {
    let mut bad = Vec::new();
    let out: Vec<Pos> = ADVERSARIAL_FENS
        .iter()
        .filter_map(|f| match Pos::from_fen(f) {
            Some(p) if p.is_legal_position() => Some(p),
            _ => {
                bad.push(*f);
                None
            }
        })
        .collect();
    assert!(bad.is_empty(), "corpus FENs not legal positions: {:?}", bad);
    out
}
