//! Search checks on the real `analyze_iterative` (through the cfg(weechess_verif) entry
//! point): C03 (legal lines), C04 (termination / stop instants / terminal roots),
//! C06 (mate claims vs. tablebase), C17 (recorded positions are draws), C19 (determinism).
//! The interleaving parts of these properties live in the loom harness (loomchk).

use crate::bridge::*;
use crate::explore::{collect_families, threads};
use crate::families::*;
use crate::report::{finish, Ctx, Local};
use oracle::tb::{forced_mate, mate_distance, mate_preserving_moves, Tablebase, Val};
use oracle::*;
use serde_json::{json, Value};
use std::collections::HashSet;
use std::panic::AssertUnwindSafe;
use std::sync::atomic::{AtomicUsize, Ordering};
use std::sync::Arc;
use weechess_core::Move;
use weechess_engine::eval::{Evaluation, Evaluator};
use weechess_engine::searcher::verif::Plan;
use weechess_engine::searcher::{SearchArtifact, Searcher, StatusEvent};

pub const POLL: usize = 10_000;

#[derive(Clone, Debug, PartialEq, Eq)]
pub enum Ev {
    Best { line: Vec<Move>, eval: i32 },
    Progress { depth: u32, nodes: usize },
    Warning,
}

pub struct Run {
    pub events: Vec<Ev>,
    pub panicked: Option<String>,
    pub artifact: Option<SearchArtifact>,
    pub nodes: usize,
    pub overrun: bool,
    pub cancelled: bool,
    pub nodes_at_cancel: usize,
}

impl Run {
    pub fn bests(&self) -> Vec<(&Vec<Move>, i32)> {
        self.events
            .iter()
            .filter_map(|e| if let Ev::Best { line, eval } = e { Some((line, *eval)) } else { None })
            .collect()
    }
    pub fn last_best(&self) -> Option<(&Vec<Move>, i32)> {
        self.bests().last().copied()
    }
    pub fn digest(&self) -> String {
        let mut s = String::new();
        for e in &self.events {
            match e {
                Ev::Best { line, eval } => {
                    s.push_str(&format!("B[{}]{};", line.iter().map(|m| mv_of(m).lan()).collect::<Vec<_>>().join(" "), eval));
                }
                Ev::Progress { depth, nodes } => s.push_str(&format!("P{}:{};", depth, nodes)),
                Ev::Warning => s.push_str("W;"),
            }
        }
        s
    }
}

#[derive(Clone, Debug)]
pub struct Cfg {
    pub seed: u64,
    pub depth: Option<usize>,
    pub workers: Option<usize>,
    /// (cancel_at, poll_interval, hard_limit); cancel_at usize::MAX = before the first node
    pub plan: Option<(usize, usize, usize)>,
}

impl Cfg {
    pub fn json(&self) -> Value {
        json!({"seed": self.seed, "depth": self.depth, "workers": self.workers, "plan": self.plan.map(|p| json!({"cancel_at": if p.0 == usize::MAX { json!("before-first-node") } else { json!(p.0) }, "poll_interval": p.1, "hard_limit": p.2}))})
    }
}

static QUIET_PANICS: std::sync::Once = std::sync::Once::new();

pub fn quiet_panics() {
    QUIET_PANICS.call_once(|| {
        std::panic::set_hook(Box::new(|_| {}));
    });
}

pub fn panic_text(e: Box<dyn std::any::Any + Send>) -> String {
    if let Some(s) = e.downcast_ref::<String>() {
        s.clone()
    } else if let Some(s) = e.downcast_ref::<&str>() {
        s.to_string()
    } else {
        "panic".to_string()
    }
}

pub fn run_search(p: &Pos, cfg: &Cfg, artifact: Option<SearchArtifact>) -> Run {
    let st = to_state(p);
    let evaluator = Evaluator::default();
    let plan = cfg.plan.map(|(c, i, h)| Plan::new(c, i, h));
    let mut events: Vec<Ev> = Vec::new();
    let plan2 = plan.clone();
    let r = std::panic::catch_unwind(AssertUnwindSafe(|| {
        Searcher::verif_analyze_sync(st, &evaluator, cfg.seed, cfg.depth, artifact, cfg.workers, plan2, &mut |e| {
            events.push(match e {
                StatusEvent::BestMove { line, evaluation } => Ev::Best { line, eval: evaluation.into() },
                StatusEvent::Progress { depth, nodes_searched, .. } => Ev::Progress { depth, nodes: nodes_searched },
                StatusEvent::Warning { .. } => Ev::Warning,
            })
        })
    }));
    let (artifact, panicked) = match r {
        Ok(a) => (Some(a), None),
        Err(e) => (None, Some(panic_text(e))),
    };
    Run {
        events,
        panicked,
        artifact,
        nodes: plan.as_ref().map(|p| p.nodes()).unwrap_or(0),
        overrun: plan.as_ref().map(|p| p.overrun()).unwrap_or(false),
        cancelled: plan.as_ref().map(|p| p.was_cancelled()).unwrap_or(false),
        nodes_at_cancel: plan.as_ref().map(|p| p.nodes_at_cancel()).unwrap_or(0),
    }
}

/// Checks a reported line move by move against the reference model. Returns an error text.
pub fn line_error(p: &Pos, line: &[Move]) -> Option<String> {
    if line.is_empty() {
        return Some("empty line".into());
    }
    let mut cur = p.clone();
    for (i, m) in line.iter().enumerate() {
        let mv = mv_of(m);
        match cur.legal().into_iter().find(|(lm, _)| *lm == mv) {
            Some((_, n)) => cur = n,
            None => {
                return Some(format!("move {} ({}) of the line is not legal in {}", i + 1, mv.lan(), cur.fen()));
            }
        }
    }
    None
}

fn lan_line(line: &[Move]) -> Vec<String> {
    line.iter().map(|m| mv_of(m).lan()).collect()
}

/// Common oracle for one finished run on a position: no panic, every reported line legal,
/// and (when `need_report`) at least one report. Returns true when clean.
pub fn check_run(ctx: &Ctx, prop_kind_prefix: &str, p: &Pos, cfg: &Cfg, run: &Run, need_report: bool, history: &[String]) -> bool {
    let input = format!("{} | {}", p.fen(), cfg.json());
    if let Some(msg) = &run.panicked {
        ctx.violation(
            &format!("{}search-panicked", prop_kind_prefix),
            input,
            json!({"fen": p.fen(), "config": cfg.json(), "panic": msg, "history": history}),
        );
        return false;
    }
    for (line, eval) in run.bests() {
        if let Some(err) = line_error(p, line) {
            ctx.violation(
                &format!("{}illegal-line", prop_kind_prefix),
                input,
                json!({"fen": p.fen(), "config": cfg.json(), "line": lan_line(line), "evaluation": eval, "error": err, "history": history}),
            );
            return false;
        }
    }
    if need_report && run.bests().is_empty() {
        ctx.violation(
            &format!("{}no-report", prop_kind_prefix),
            input,
            json!({"fen": p.fen(), "config": cfg.json(), "history": history}),
        );
        return false;
    }
    true
}

/// Joins a search started through the public entry point, with a hang detector: a join
/// that does not return is itself a violation of C04 (the thread is then leaked).
pub fn join_timeout<T: Send + 'static>(h: std::thread::JoinHandle<T>, secs: u64) -> Result<T, String> {
    let (tx, rx) = std::sync::mpsc::channel();
    std::thread::spawn(move || {
        let _ = tx.send(h.join());
    });
    match rx.recv_timeout(std::time::Duration::from_secs(secs)) {
        Ok(Ok(v)) => Ok(v),
        Ok(Err(_)) => Err("search thread panicked".into()),
        Err(_) => Err(format!("join() did not return within {} s", secs)),
    }
}

pub fn small_artifact(seed: u64, shape: (usize, usize)) -> SearchArtifact {
    SearchArtifact::verif_new(seed, shape.0, shape.1)
}

/// Parallel for over a slice on plain std threads. (Not on the rayon pool: the searches
/// hand their workers to the global rayon pool, and harness loops that block on a search
/// from inside that pool would starve it.)
pub fn par_for<T: Sync, F: Fn(&T, &mut Local) + Sync>(ctx: &Ctx, items: &[T], f: F) {
    let next = AtomicUsize::new(0);
    std::thread::scope(|s| {
        for _ in 0..threads() {
            s.spawn(|| {
                let mut l = Local::default();
                loop {
                    let i = next.fetch_add(1, Ordering::Relaxed);
                    if i >= items.len() {
                        break;
                    }
                    f(&items[i], &mut l);
                }
                ctx.merge(l);
            });
        }
    });
}

fn seeds(ctx: &Ctx) -> Vec<u64> {
    let mut s = vec![0u64, 1];
    if !s.contains(&ctx.seed) {
        s.push(ctx.seed);
    } else {
        s.push(2);
    }
    s
}

fn loom_part(ctx: &Ctx, jobs: Vec<crate::loomrun::Job>) -> u64 {
    if std::env::var("VERIF_SKIP_LOOM").is_ok() {
        ctx.note("loom part skipped (VERIF_SKIP_LOOM set)");
        return 0;
    }
    let r = crate::loomrun::run_jobs(ctx, &jobs);
    ctx.set_extra("loom_summary", json!({"jobs": r.jobs, "schedules": r.executions, "max_preemption_bound_completed": r.max_bound_completed}));
    r.executions
}

const LOOM_RULE: &str = "; interleavings: loom explores every schedule of the 2-3 worker / caller-control-search harnesses on the real searcher.rs up to the stated preemption bound (0,1,2 quick; 3 thorough), same oracle on every schedule";

const ASSUME: &[&str] = &[
    "reference model (oracle crate) validated against published perft counts and tablebase maxima",
    "searches run through the cfg(weechess_verif) synchronous entry point, which calls the real analyze_iterative; small transposition tables (a property of the artifact, not of the algorithm)",
    "interleavings of worker threads are explored separately by the loom harness; here workers run in whatever order the rayon pool chooses",
];

// ------------------------------------------------------------------ C03

fn c03_positions(quick: bool) -> Vec<Pos> {
    let mut v = adversarial_roots();
    v.extend(many_move_positions());
    v.extend(perft_roots().into_iter().map(|x| x.1).filter(|p| p.piece_count() <= 12));
    let fams = [f3(), fcastle(false), fep(false), fpromo(), fmate()];
    let (stride, step) = if quick { (29, 47) } else { (7, 11) };
    v.extend(collect_families(&fams, stride).into_iter().step_by(step));
    v
}

pub fn run_c03(ctx: &Ctx) -> i32 {
    quiet_panics();
    let quick = ctx.quick();
    let positions = c03_positions(quick);
    let seeds = seeds(ctx);
    let max_depth = if quick { 3 } else { 4 };
    // (a) inputs
    par_for(ctx, &positions, |p, l| {
        if !p.has_legal_move() {
            return; // terminal roots belong to C04
        }
        l.inc("positions");
        for &seed in &seeds {
            for depth in 1..=max_depth {
                for shape in [(2usize, 64usize), (1, 1)] {
                    for workers in [1usize, 2] {
                        if workers == 2 && (depth < 2 || shape == (2, 64) && seed != 0) {
                            continue;
                        }
                        let cfg = Cfg { seed, depth: Some(depth), workers: Some(workers), plan: None };
                        let run = run_search(p, &cfg, Some(small_artifact(seed, shape)));
                        l.inc("searches");
                        l.add("reported_lines", run.bests().len() as u64);
                        if workers == 2 && shape == (1, 1) {
                            // a one-bucket table shared by two workers: the root entry can be
                            // displaced between a worker's insert and the report; tracked apart
                            if !check_run(ctx, "tiny-table-", p, &cfg, &run, true, &[]) {
                                return;
                            }
                        } else if !check_run(ctx, "", p, &cfg, &run, true, &[]) {
                            return;
                        }
                        if let Some(a) = &run.artifact {
                            let (entries, occupied, cap) = a.verif_table_stats();
                            if entries != occupied || entries > cap {
                                ctx.violation("table-count-drift-after-search", p.fen(), json!({"fen": p.fen(), "config": cfg.json(), "entries": entries, "occupied": occupied, "capacity": cap}));
                            }
                        }
                    }
                }
            }
        }
    });
    // (b) histories: all ordered pairs (thorough: also triples) of collision variants of one
    // placement searched in sequence on one carried artifact
    let placements: Vec<Pos> = {
        let mut v: Vec<Pos> = vec![
            Pos::from_fen("4k3/p6p/Pp4pP/1Pp2pP1/2Pp1P2/3P4/8/4K2R w K - 0 1").unwrap(),
            Pos::from_fen("r3k2r/8/8/8/8/8/8/R3K2R w KQkq - 0 1").unwrap(),
            Pos::from_fen("r3k2r/pppppppp/8/8/8/8/PPPPPPPP/R3K2R w KQkq - 0 1").unwrap(),
            Pos::from_fen("4k3/8/8/3pP3/8/8/8/4K3 w - d6 0 1").unwrap(),
            Pos::from_fen("4k3/8/8/8/3pP3/8/8/4K3 b - e3 0 1").unwrap(),
            Pos::from_fen("r3k3/8/8/3pP3/8/8/8/4K2R w Kq d6 0 1").unwrap(),
        ];
        let (stride, step) = if quick { (101, 211) } else { (37, 83) };
        v.extend(collect_families(&[fcastle(false)], stride).into_iter().step_by(step));
        v.extend(collect_families(&[fep(false)], stride).into_iter().step_by(step * 3));
        v
    };
    let depth_menu: Vec<usize> = if quick { vec![1, 2, 3] } else { vec![1, 2, 3, 4] };
    par_for(ctx, &placements, |base, l| {
        // variants: every rights subset that is legal for the placement, ep on/off, side to move
        let mut vars: Vec<Pos> = Vec::new();
        let mut seen = HashSet::new();
        for cr in 0..16u8 {
            for ep in [base.ep, None] {
                for flip in [false, true] {
                    let mut q = base.clone();
                    q.cr = cr;
                    q.ep = ep;
                    if flip {
                        q.wtm = !q.wtm;
                        q.ep = None;
                    }
                    if q.is_legal_position() && q.has_legal_move() && seen.insert(q.key()) {
                        vars.push(q);
                    }
                }
            }
        }
        l.inc("history_placements");
        l.add("history_variants", vars.len() as u64);
        let n = vars.len();
        let triples = !quick && n <= 6;
        for a in 0..n {
            for b in 0..n {
                if a == b {
                    continue;
                }
                let thirds: Vec<Option<usize>> = if triples { (0..n).filter(|&c| c != b).map(Some).chain([None]).collect() } else { vec![None] };
                for c in thirds {
                    for &d1 in &depth_menu {
                        for &d2 in &depth_menu {
                            let seq: Vec<(usize, usize)> = match c {
                                Some(c) => vec![(a, d1), (b, d2), (c, d2)],
                                None => vec![(a, d1), (b, d2)],
                            };
                            // a roomy table, and (for pairs) a crowded one whose buckets are
                            // full of the first search's entries when the second one starts
                            for shape in if c.is_none() { vec![(2usize, 64usize), (1, 2)] } else { vec![(2usize, 64usize)] } {
                            let mut artifact = Some(small_artifact(7, shape));
                            let mut hist: Vec<String> = Vec::new();
                            for (vi, d) in seq.clone() {
                                let cfg = Cfg { seed: 3, depth: Some(d), workers: Some(1), plan: None };
                                let run = run_search(&vars[vi], &cfg, artifact.take());
                                l.inc("history_searches");
                                if !check_run(ctx, "history-", &vars[vi], &cfg, &run, true, &hist) {
                                    return;
                                }
                                hist.push(format!("{} depth {}", vars[vi].fen(), d));
                                artifact = run.artifact;
                            }
                            l.inc("histories");
                            }
                        }
                    }
                }
            }
        }
    });
    // (b2) collisions below the root: a twin of a position that the second search only
    // reaches after its first move is searched first (same placement, other en-passant
    // state), then every "parent" from which one pawn step leads to that placement
    {
        let mut cases: Vec<(Pos, Pos)> = Vec::new(); // (twin searched first, parent searched second)
        let bases = ["7k/8/8/3pPp2/8/8/8/K7 w - - 0 1", "4k3/8/8/1pPp4/8/8/8/4K3 w - - 0 1", "6k1/8/8/5pPp/8/8/8/1K6 w - - 0 1"];
        for b in bases {
            for mirror in [false, true] {
                let q0 = Pos::from_fen(b).unwrap();
                let q0 = if mirror { q0.mirror() } else { q0 };
                // the two enemy pawns beside the capturing pawn
                let wp = (0..64u8).find(|&s| q0.b[s as usize] == code(q0.wtm, PAWN)).unwrap();
                let files = [file_of(wp) - 1, file_of(wp) + 1];
                let (tr, home, mid) = if q0.wtm { (5, 6, 5) } else { (2, 1, 2) };
                let mut twins: Vec<Pos> = vec![q0.clone()];
                for f in files {
                    let mut t = q0.clone();
                    t.ep = sq_at(f, tr);
                    if t.is_legal_position() {
                        twins.push(t);
                    }
                }
                let mut parents: Vec<Pos> = Vec::new();
                for f in files {
                    let cur = sq_at(f, rank_of(wp)).unwrap();
                    for from_rank in [home, mid] {
                        let mut p = q0.clone();
                        p.ep = None;
                        p.wtm = !q0.wtm;
                        p.b[cur as usize] = EMPTY;
                        p.b[sq_at(f, from_rank).unwrap() as usize] = code(!q0.wtm, PAWN);
                        if p.is_legal_position() {
                            parents.push(p);
                        }
                    }
                }
                for t in &twins {
                    for p in &parents {
                        cases.push((t.clone(), p.clone()));
                    }
                }
            }
        }
        ctx.add("below_root_twin_histories", cases.len() as u64);
        par_for(ctx, &cases, |(twin, parent), l| {
            for d1 in [2usize, 3, 4] {
                for d2 in [2usize, 3, 4] {
                    let c1 = Cfg { seed: 5, depth: Some(d1), workers: Some(1), plan: None };
                    let r1 = run_search(twin, &c1, Some(small_artifact(9, (2, 64))));
                    l.inc("history_searches");
                    if !check_run(ctx, "history-", twin, &c1, &r1, true, &[]) {
                        return;
                    }
                    let c2 = Cfg { seed: 6, depth: Some(d2), workers: Some(1), plan: None };
                    let r2 = run_search(parent, &c2, r1.artifact);
                    l.inc("history_searches");
                    if !check_run(ctx, "history-", parent, &c2, &r2, true, &[format!("{} depth {}", twin.fen(), d1)]) {
                        return;
                    }
                }
            }
        });
    }
    // (b3) stepping back one ply: a successor is searched first, then its parent on the same
    // artifact - the parent's best move may well re-enter the recorded successor (the weaker
    // side likes the repetition); a report with a non-empty legal line is still owed
    {
        let tb = Tablebase::build(threads());
        let mut parents: Vec<Pos> = Vec::new();
        for k in [QUEEN, ROOK] {
            for (i, (p, v)) in tb.positions(k).enumerate() {
                // the bare king to move (lost or drawn for it)
                if !p.wtm && matches!(v, Val::Loss(_) | Val::Draw) && p.has_legal_move() && i % (if quick { 4999 } else { 149 }) == 0 {
                    parents.push(p.mirror());
                    parents.push(p);
                }
            }
        }
        ctx.add("step_back_parents", parents.len() as u64);
        par_for(ctx, &parents, |p, l| {
            for (m, child) in p.legal() {
                if !child.has_legal_move() {
                    continue;
                }
                for (d1, d2) in [(1usize, 1usize), (2, 2), (2, 3)] {
                    let c1 = Cfg { seed: 2, depth: Some(d1), workers: Some(1), plan: None };
                    let r1 = run_search(&child, &c1, Some(small_artifact(3, (2, 64))));
                    l.inc("history_searches");
                    if !check_run(ctx, "history-", &child, &c1, &r1, true, &[]) {
                        return;
                    }
                    let c2 = Cfg { seed: 4, depth: Some(d2), workers: Some(1), plan: None };
                    let r2 = run_search(p, &c2, r1.artifact);
                    l.inc("history_searches");
                    if !check_run(ctx, "history-", p, &c2, &r2, true, &[format!("{} depth {} (the position after {})", child.fen(), d1, m.lan())]) {
                        return;
                    }
                }
            }
        });
    }
    // (c) public entry point on a handful (three real threads, default-shaped table via env)
    {
        std::env::set_var("WEECHESS_VERIF_TT_MB", "1");
        let sample: Vec<Pos> = positions.iter().filter(|p| p.has_legal_move()).step_by((positions.len() / 200).max(1)).cloned().collect();
        par_for(ctx, &sample, |p, l| {
            for depth in 1..=3usize {
                let (h, tx, rx) = Searcher::new().analyze(to_state(p), 5, Evaluator::default(), Some(depth), None);
                let mut bests = 0;
                let mut bad = None;
                while let Ok(e) = rx.recv() {
                    if let StatusEvent::BestMove { line, .. } = e {
                        bests += 1;
                        if let Some(err) = line_error(p, &line) {
                            bad = Some((lan_line(&line), err));
                        }
                    }
                }
                let joined = join_timeout(h, 30);
                drop(tx);
                l.inc("public_api_searches");
                if let Err(e) = &joined {
                    ctx.violation("public-search-join-failed", p.fen(), json!({"fen": p.fen(), "depth": depth, "error": e}));
                } else if let Some((line, err)) = bad {
                    ctx.violation("public-illegal-line", p.fen(), json!({"fen": p.fen(), "depth": depth, "line": line, "error": err}));
                } else if bests == 0 {
                    ctx.violation("public-no-report", p.fen(), json!({"fen": p.fen(), "depth": depth}));
                }
            }
        });
    }
    let p = &positions[0];
    let cfg = Cfg { seed: 0, depth: Some(2), workers: Some(1), plan: None };
    let r = run_search(p, &cfg, Some(small_artifact(0, (2, 64))));
    ctx.sample(json!({"position": p.fen(), "config": cfg.json(), "reported": r.bests().iter().map(|(l, e)| json!({"line": lan_line(l), "eval": e})).collect::<Vec<_>>()}));
    ctx.sample(json!({"history": ["4k3/p6p/Pp4pP/1Pp2pP1/2Pp1P2/3P4/8/4K2R w K - depth 3", "4k3/p6p/Pp4pP/1Pp2pP1/2Pp1P2/3P4/8/4K2R w - - depth 3"], "checked": "every line of the second search is legal without the castling right"}));
    let schedules = loom_part(ctx, crate::loomrun::jobs_c03(quick));
    let searches = ctx.get("searches") + ctx.get("history_searches") + ctx.get("public_api_searches") + schedules;
    let exh = ctx.no_caps();
    finish(
        ctx,
        ctx.get("positions") + ctx.get("history_variants"),
        searches,
        ctx.get("reported_lines") + ctx.get("history_searches") + schedules,
        exh,
        &format!("{}{}", "inputs: every position of a strided complete sub-family of F3/Fcastle/Fep/Fpromo/Fmate plus the adversarial corpus x depth 1..3 (thorough 4) x seeds {0,1,VERIF_SEED} x table shapes {2x64, 1x1} x workers {1,2}; histories: for each collision placement every legal (rights subset, ep on/off, side) variant and every ordered pair (thorough: triple) of variants x depth pairs searched in sequence on one carried artifact; twins below the root (a position with another en-passant state searched first, then every parent one pawn step away from that placement); stepping back one ply (every successor of a bare-king position searched first, then the parent on the same artifact); every reported line replayed move by move on the reference model", LOOM_RULE),
        ASSUME,
    )
}

// ------------------------------------------------------------------ C04

pub fn run_c04(ctx: &Ctx) -> i32 {
    quiet_panics();
    let quick = ctx.quick();
    // (a) every terminal root of F3 (+ a strided non-terminal rest): returns, no panic, no
    // report for terminal roots; the returned artifact seeds a normal second search
    let follow = Pos::from_fen("8/8/8/4k3/8/8/3R4/4K3 w - - 0 1").unwrap();
    let collected: std::sync::Mutex<Vec<Pos>> = std::sync::Mutex::new(Vec::new());
    let modulus: u32 = if quick { 997 } else { 97 };
    crate::explore::run_families(ctx, &[f3(), fmate()], 1, |p, _| {
        let mut h: u32 = 2166136261;
        for &b in p.key().iter() {
            h = (h ^ b as u32).wrapping_mul(16777619);
        }
        if !p.has_legal_move() || (h >> 7) % modulus == 0 {
            collected.lock().unwrap().push(p.clone());
        }
    });
    let mut items: Vec<Pos> = collected.into_inner().unwrap();
    items.sort_by(|a, b| a.key().cmp(&b.key()));
    ctx.add("terminal_and_sampled_roots", items.len() as u64);
    par_for(ctx, &items, |p, l| {
        let terminal = !p.has_legal_move();
        for depth in [Some(1usize), Some(3)] {
            let cfg = Cfg { seed: 1, depth, workers: Some(1), plan: None };
            let run = run_search(p, &cfg, Some(small_artifact(1, (2, 64))));
            l.inc("searches");
            if terminal {
                l.inc("terminal_root_searches");
            }
            if !check_run(ctx, if terminal { "terminal-root-" } else { "" }, p, &cfg, &run, !terminal, &[]) {
                return;
            }
            if terminal && !run.bests().is_empty() {
                ctx.violation("terminal-root-reports-move", p.fen(), json!({"fen": p.fen(), "line": lan_line(run.bests()[0].0)}));
                return;
            }
            // the artifact must seed the next search
            let cfg2 = Cfg { seed: 2, depth: Some(2), workers: Some(1), plan: None };
            let run2 = run_search(&follow, &cfg2, run.artifact);
            l.inc("searches");
            if !check_run(ctx, "after-terminal-root-", &follow, &cfg2, &run2, true, &[format!("{} depth {:?}", p.fen(), depth)]) {
                return;
            }
        }
    });
    // (b) stop instants: every node index k of the uninterrupted search, poll interval 1
    let menu: Vec<Pos> = [
        "8/8/8/4k3/8/8/3P4/4K3 w - - 0 1",
        "8/8/8/8/8/k2r4/8/K7 b - - 4 3",
        "7k/8/5K2/6Q1/8/8/8/8 w - - 0 1",
        "r3k2r/8/8/8/8/8/8/R3K2R w KQkq - 0 1",
        "8/8/3k4/8/2pP4/8/8/3KR3 b - d3 0 1",
        "7k/5Q2/6K1/8/8/8/8/8 b - - 0 1",
        "k7/2Q5/1K6/8/8/8/8/8 b - - 0 1",
        "6k1/5ppp/8/8/8/8/8/R3K3 w Q - 0 1",
    ]
    .iter()
    .map(|f| Pos::from_fen(f).unwrap())
    .collect();
    struct StopCase {
        p: Pos,
        depth: Option<usize>,
        workers: usize,
        n: usize,
    }
    let mut cases = Vec::new();
    for p in &menu {
        for depth in [Some(1usize), Some(2), Some(3), None] {
            for workers in [1usize, 2] {
                // size of the uninterrupted search (depth None: three iterations' worth)
                let cfg = Cfg { seed: 4, depth: depth.or(Some(3)), workers: Some(workers), plan: Some((0, 0, 0)) };
                let run = run_search(p, &cfg, Some(small_artifact(4, (2, 64))));
                if run.panicked.is_some() {
                    check_run(ctx, "", p, &cfg, &run, false, &[]);
                    continue;
                }
                cases.push(StopCase { p: p.clone(), depth, workers, n: run.nodes });
            }
        }
    }
    let cap_n = if quick { 1500 } else { 20000 };
    let work: Vec<(usize, usize)> = cases.iter().enumerate().flat_map(|(i, c)| (0..=c.n.min(cap_n) + 1).map(move |k| (i, k))).collect();
    for c in &cases {
        if c.n > cap_n {
            ctx.cap(format!("stop instants of {} depth {:?} workers {}: first {} of {} node indices enumerated", c.p.fen(), c.depth, c.workers, cap_n, c.n));
        }
    }
    par_for(ctx, &work, |&(ci, k), l| {
        let c = &cases[ci];
        let cancel_at = if k == 0 { usize::MAX } else { k };
        let hard = k + 200_000;
        let cfg = Cfg { seed: 4, depth: c.depth, workers: Some(c.workers), plan: Some((cancel_at, 1, hard)) };
        let run = run_search(&c.p, &cfg, Some(small_artifact(4, (2, 64))));
        l.inc("stop_instant_runs");
        if !check_run(ctx, "stop-instant-", &c.p, &cfg, &run, false, &[]) {
            return;
        }
        if run.overrun {
            ctx.violation("stop-ignored", format!("{} | {}", c.p.fen(), cfg.json()), json!({"fen": c.p.fen(), "config": cfg.json(), "nodes": run.nodes, "explanation": "with the flag polled at every node the search still ran 200000 nodes past the stop instant"}));
            return;
        }
        // exact bound only for one worker: with two free-running OS threads the other worker
        // may enter nodes between the k-th node being counted and the flag being stored (the
        // exact interleavings of two workers are loom's part); there a generous bound applies
        let bound = if c.workers == 1 { k + 1 } else { k + 50_000 };
        if run.cancelled && k != 0 && run.nodes > bound {
            ctx.violation("stop-late", format!("{} | {}", c.p.fen(), cfg.json()), json!({"fen": c.p.fen(), "config": cfg.json(), "nodes": run.nodes, "cancel_at": k}));
        }
    });
    // (c) shipped poll interval: stop at the boundaries of the first poll windows, no depth limit.
    // Step bound: the search returns having entered < k + STEP_BOUND nodes.
    const STEP_BOUND: usize = 2_000_000;
    let ks: Vec<usize> = vec![0, 1, 2, 9_999, 10_000, 10_001, 19_999, 20_000, 20_001, 35_000];
    let mut roots: Vec<Pos> = menu.clone();
    roots.push(Pos::startpos());
    roots.push(Pos::from_fen("r3k2r/p1ppqpb1/bn2pnp1/3PN3/1p2P3/2N2Q1p/PPPBBPPP/R3K2R w KQkq - 0 1").unwrap());
    // every 3-man position where the side to move cannot avoid being mated within 2 plies:
    // their search trees are finite, so no iteration ever reaches the poll
    let tb = Tablebase::build(threads());
    let mut doomed: Vec<Pos> = Vec::new();
    for k in [QUEEN, ROOK] {
        for (p, v) in tb.positions(k) {
            if matches!(v, Val::Loss(n) if n <= 2 && n > 0) {
                doomed.push(p.clone());
                doomed.push(p.mirror());
            }
        }
    }
    ctx.add("doomed_roots", doomed.len() as u64);
    let step = if quick { (doomed.len() / 150).max(1) } else { (doomed.len() / 3000).max(1) };
    roots.extend(doomed.into_iter().step_by(step));
    let work2: Vec<(usize, usize, usize)> = roots
        .iter()
        .enumerate()
        .flat_map(|(i, _)| ks.iter().flat_map(move |&k| [1usize, 2].into_iter().map(move |w| (i, k, w))))
        .filter(|&(i, k, w)| i < menu.len() + 2 || (w == 1 && (k == 1 || k == 10_000)))
        .collect();
    par_for(ctx, &work2, |&(ri, k, workers), l| {
        let p = &roots[ri];
        let cancel_at = if k == 0 { usize::MAX } else { k };
        let cfg = Cfg { seed: 6, depth: None, workers: Some(workers), plan: Some((cancel_at, 0, k + STEP_BOUND * workers)) };
        let run = run_search(p, &cfg, Some(small_artifact(6, (4, 256))));
        l.inc("shipped_interval_runs");
        let has_move = p.has_legal_move();
        if !check_run(ctx, "shipped-poll-", p, &cfg, &run, false, &[]) {
            return;
        }
        if run.overrun {
            ctx.violation(
                "stop-not-obeyed",
                format!("{} | stop at node {} workers {}", p.fen(), k, workers),
                json!({"fen": p.fen(), "config": cfg.json(), "nodes_entered": run.nodes, "step_bound": STEP_BOUND * workers, "explanation": "an unlimited-depth search was asked to stop and was still running after the step bound"}),
            );
            return;
        }
        // with the shipped interval the first iterations always complete: a report is owed
        // (unless the search ended by itself with a mate score before the stop mattered)
        if has_move && run.bests().is_empty() {
            ctx.violation("stopped-search-reports-nothing", format!("{} | stop at node {}", p.fen(), k), json!({"fen": p.fen(), "config": cfg.json()}));
        }
    });
    // (d) several busy workers, stop inside a deep iteration, shipped poll interval: every
    // worker has to notice the stop by itself within its next 10 000 nodes. The iteration
    // sizes are measured first; the stop lands 10% into the last measured iteration and the
    // bound is workers x 10 000 plus a quarter of that iteration (free-running threads).
    {
        let mut deep_roots = vec![Pos::startpos()];
        if !quick {
            deep_roots.push(Pos::from_fen("r3k2r/p1ppqpb1/bn2pnp1/3PN3/1p2P3/2N2Q1p/PPPBBPPP/R3K2R w KQkq - 0 1").unwrap());
        }
        for p in &deep_roots {
            // 0 stands for "no explicit count": the shipped default (32 workers from the
            // fourth iteration on); it needs a larger iteration for the bound to bite
            for workers in if quick { vec![3usize, 0] } else { vec![3usize, 4, 0] } {
                let default_workers = workers == 0;
                let wopt = if default_workers { None } else { Some(workers) };
                let workers = if default_workers { 32 } else { workers };
                let min_size = if default_workers { 2_000_000 } else { 400_000 };
                // measure cumulative node counts per iteration
                let mut depth = 4;
                let (mut before, mut size) = (0usize, 0usize);
                while depth <= 8 {
                    let cfg = Cfg { seed: 9, depth: Some(depth), workers: wopt, plan: Some((0, 0, 0)) };
                    let run = run_search(p, &cfg, Some(small_artifact(9, (16, 4096))));
                    let cum: Vec<usize> = run.events.iter().filter_map(|e| if let Ev::Progress { nodes, .. } = e { Some(*nodes) } else { None }).collect();
                    if cum.len() >= 2 {
                        before = cum[cum.len() - 2];
                        size = cum[cum.len() - 1] - before;
                    }
                    if size >= min_size {
                        break;
                    }
                    depth += 1;
                }
                if size < min_size {
                    ctx.note(format!("deep-stop case skipped for {} (workers {:?}): no iteration with {} nodes up to depth 8", p.fen(), wopt, min_size));
                    continue;
                }
                let k = before + size / 10;
                let bound = k + workers * POLL + size / 4;
                let cfg = Cfg { seed: 9, depth: None, workers: wopt, plan: Some((k, 0, k + 4 * size + 2_000_000)) };
                let run = run_search(p, &cfg, Some(small_artifact(9, (16, 4096))));
                ctx.add("deep_stop_runs", 1);
                if !check_run(ctx, "deep-stop-", p, &cfg, &run, true, &[]) {
                    continue;
                }
                if run.overrun || run.nodes > bound {
                    ctx.violation(
                        "stop-not-noticed-by-every-worker",
                        format!("{} | workers {} stop at node {}", p.fen(), workers, k),
                        json!({"fen": p.fen(), "config": cfg.json(), "iteration_size": size, "stop_at_node": k, "nodes_entered": run.nodes, "bound": bound, "explanation": "after the stop every worker must unwind within its next 10000 nodes; here the search went on for a large part of the iteration"}),
                    );
                }
            }
        }
    }
    // (e) the artifact of one search seeds the next, along a game: every position of a game
    // line is searched in turn on one artifact whose tables are small enough to be full
    // after the first search (every bucket holds entries of other positions, of every depth).
    // All depth sequences over {1,2,3} of the given length after a deeper first search.
    {
        let lines: Vec<(&str, Vec<&str>)> = vec![
            ("rnbqkbnr/pppppppp/8/8/8/8/PPPPPPPP/RNBQKBNR w KQkq - 0 1", vec!["e2e4", "e7e5", "g1f3", "b8c6", "f1b5", "a7a6"]),
            ("8/8/8/4k3/8/8/3QK3/8 w - - 0 1", vec!["d2d3", "e5f4", "d3d4", "f4g5", "e2f3", "g5h5"]),
            ("r3k2r/p1ppqpb1/bn2pnp1/3PN3/1p2P3/2N2Q1p/PPPBBPPP/R3K2R w KQkq - 0 1", vec!["e1g1", "e8c8", "d5e6", "d7e6"]),
        ];
        let shapes: Vec<(usize, usize)> = if quick { vec![(1, 1), (3, 16)] } else { vec![(1, 1), (1, 2), (2, 2), (3, 16), (2, 64)] };
        let first_depths: Vec<usize> = if quick { vec![4] } else { vec![3, 4, 5] };
        let tail_len = if quick { 3 } else { 4 };
        let mut seqs: Vec<Vec<usize>> = vec![vec![]];
        for _ in 0..tail_len {
            seqs = seqs.into_iter().flat_map(|s| (1..=3usize).map(move |d| { let mut t = s.clone(); t.push(d); t })).collect();
        }
        let mut work3: Vec<(usize, (usize, usize), usize, Vec<usize>)> = Vec::new();
        for li in 0..lines.len() {
            for &sh in &shapes {
                for &fd in &first_depths {
                    for sq in &seqs {
                        work3.push((li, sh, fd, sq.clone()));
                    }
                }
            }
        }
        par_for(ctx, &work3, |(li, sh, fd, sq), l| {
            let (root, moves) = &lines[*li];
            let mut p = Pos::from_fen(root).unwrap();
            assert!(p.is_legal_position(), "harness error: illegal root {}", root);
            let mut artifact = Some(small_artifact(3, *sh));
            let mut hist: Vec<String> = Vec::new();
            for (i, d) in std::iter::once(fd).chain(sq.iter()).enumerate() {
                let cfg = Cfg { seed: 3, depth: Some(*d), workers: Some(1), plan: None };
                let run = run_search(&p, &cfg, artifact.take());
                l.inc("searches");
                l.inc("chained_searches");
                if !check_run(ctx, "chained-", &p, &cfg, &run, true, &hist) {
                    return;
                }
                hist.push(format!("{} depth {} table {:?}", p.fen(), d, sh));
                artifact = run.artifact;
                match moves.get(i) {
                    Some(m) => p = p.find_lan(m).unwrap_or_else(|| panic!("harness error: {} is not legal in {}", m, p.fen())).1,
                    None => break,
                }
            }
            l.inc("chained_games");
        });
    }
    ctx.sample(json!({"position": menu[0].fen(), "stop_instants": "every node index 0..=N with poll interval 1, depth limits 1,2,3,none, workers 1,2", "checked": "returns, no panic, every reported line legal; with one worker at most one more node is entered after the stop"}));
    ctx.sample(json!({"position": roots[menu.len() + 2].fen(), "stop_at_node": 10000, "poll": "shipped (10000)", "checked": "returns within the step bound"}));
    let schedules = loom_part(ctx, crate::loomrun::jobs_c04(quick));
    let exhaustive = ctx.no_caps();
    finish(
        ctx,
        ctx.get("searches") + cases.len() as u64 + roots.len() as u64,
        ctx.get("searches") + ctx.get("stop_instant_runs") + ctx.get("shipped_interval_runs") + schedules,
        ctx.get("searches") + ctx.get("stop_instant_runs") + ctx.get("shipped_interval_runs") + schedules,
        exhaustive,
        &format!("{}{}", "terminal roots: every checkmate and stalemate of the complete families F3 and Fmate searched at depth 1 and 3, the returned artifact then seeds a second search; stop instants: for each (position, depth limit in {1,2,3,none}, workers in {1,2}) of a menu every node index k in 0..=N at which the stop flag is raised, with the flag polled at every node; shipped poll interval: stop raised at the boundaries of the poll windows on unlimited-depth searches incl. the 3-man positions whose search tree is finite, judged by a step bound (nodes entered after the stop); three / four busy workers and the default worker count (32) stopped 10% into an iteration of >= 4*10^5 (default count: 2*10^6) nodes (every worker must notice the stop itself); seeding: the positions of three game lines searched in turn on one artifact with tables small enough to be full after the first search, all depth sequences over {1,2,3} after a deeper first search; protocol: the real Searcher::analyze (caller, control and search thread over the channel model) with six caller scripts x {tiny, stalemate, mate-in-1} roots x depth {1,2,none} - loom reports deadlocks and panics", LOOM_RULE),
        ASSUME,
    )
}

// ------------------------------------------------------------------ C06

fn tb_value_after(tb: &Tablebase, p: &Pos, m: &Move) -> Option<Val> {
    let mv = mv_of(m);
    let (_, n) = p.legal().into_iter().find(|(lm, _)| *lm == mv)?;
    tb.probe(&n)
}

/// Promotion-key family: white king, white pawn on the seventh rank, one more white piece
/// (Q, R, B, N), lone black king on an edge square, white to move; kept are the positions
/// with a forced mate in exactly 3 plies all of whose mate-preserving first moves are
/// promotions while some sibling promotion (same pawn step) does not preserve the mate.
/// `stride` takes every stride-th placement of (white king, extra piece).
pub fn promo_key_family(stride: usize) -> Vec<Pos> {
    let no_draw = |_: &Pos| false;
    let mut placements: Vec<(u8, u8, u8, u8, u8)> = Vec::new();
    let mut i = 0usize;
    for bk in 0..64u8 {
        let (r, f) = (bk / 8, bk % 8);
        if !(r == 0 || r == 7 || f == 0 || f == 7) {
            continue;
        }
        for pawn in 48..56u8 {
            for wk in 0..64u8 {
                for xk in [QUEEN, ROOK, BISHOP, KNIGHT] {
                    for xs in 0..64u8 {
                        if bk == pawn || bk == wk || bk == xs || pawn == wk || pawn == xs || wk == xs {
                            continue;
                        }
                        i += 1;
                        if i % stride == 0 {
                            placements.push((bk, pawn, wk, xk, xs));
                        }
                    }
                }
            }
        }
    }
    let out: std::sync::Mutex<Vec<Pos>> = std::sync::Mutex::new(Vec::new());
    let chunk = (placements.len() / (threads() * 8)).max(1);
    let next = std::sync::atomic::AtomicUsize::new(0);
    std::thread::scope(|sc| {
        for _ in 0..threads() {
            sc.spawn(|| loop {
                let start = next.fetch_add(chunk, std::sync::atomic::Ordering::Relaxed);
                if start >= placements.len() {
                    break;
                }
                let mut found = Vec::new();
                for &(bk, pawn, wk, xk, xs) in &placements[start..(start + chunk).min(placements.len())] {
                    let mut p = Pos::empty();
                    p.b[bk as usize] = code(false, KING);
                    p.b[wk as usize] = code(true, KING);
                    p.b[pawn as usize] = code(true, PAWN);
                    p.b[xs as usize] = code(true, xk);
                    p.wtm = true;
                    p.full = 1;
                    if !p.is_legal_position() {
                        continue;
                    }
                    let legal = p.legal();
                    // cheap first: some promotion after which black is mated within 2 plies,
                    // and no mate in 1
                    let promo_key = legal.iter().any(|(m, s)| m.promo != 0 && oracle::tb::lost_within(s, 2, &no_draw));
                    if !promo_key || legal.iter().any(|(_, s)| !s.has_legal_move() && s.in_check(s.wtm)) {
                        continue;
                    }
                    let keys = mate_preserving_moves(&p, 3, &no_draw);
                    if keys.iter().any(|m| m.promo == 0) {
                        continue;
                    }
                    let sibling_fails = legal.iter().any(|(m, _)| m.promo != 0 && !keys.contains(m) && keys.iter().any(|k| k.from == m.from && k.to == m.to));
                    if sibling_fails {
                        found.push(p);
                    }
                }
                out.lock().unwrap().extend(found);
            });
        }
    });
    let mut v = out.into_inner().unwrap();
    v.sort_by(|a, b| a.key().cmp(&b.key()));
    v
}

pub fn run_c06(ctx: &Ctx) -> i32 {
    quiet_panics();
    let quick = ctx.quick();
    let t_part = std::cell::Cell::new(std::time::Instant::now());
    let lap = |name: &str| {
        if std::env::var("VERIF_TIMING").is_ok() {
            eprintln!("timing {}: {:?}", name, t_part.get().elapsed());
        }
        t_part.set(std::time::Instant::now());
    };
    let tb = Tablebase::build(threads());
    let st = oracle::selftest::tb_selftest(&tb);
    assert!(st.iter().all(|x| x.1), "tablebase self test failed: {:?}", st);
    ctx.set_extra("oracle_validation", json!({"tablebase": "longest wins KQK 19 / KRK 31 / KPK 55 plies as published; KBK/KNK no wins", "legal_positions": tb.legal_positions}));
    let seeds = seeds(ctx);
    // positions: white-strong and (mirrored) black-strong
    let kinds: Vec<u8> = if quick { vec![ROOK] } else { vec![QUEEN, ROOK, PAWN] };
    let mut all: Vec<(Pos, Val)> = Vec::new();
    for &k in &kinds {
        for (p, v) in tb.positions(k) {
            all.push((p.mirror(), v));
            all.push((p, v));
        }
    }
    // completeness also over KQK in quick (only the shallow wins are searched)
    if quick {
        for (p, v) in tb.positions(QUEEN) {
            if matches!(v, Val::Win(n) if n <= 3) {
                all.push((p.mirror(), v));
                all.push((p, v));
            }
        }
    }
    // wins in 5 plies need transpositions and entries of earlier iterations to go wrong:
    // a strided slice of them is part of the quick tier as well
    let mut deep: Vec<(Pos, Val)> = Vec::new();
    if quick {
        for k in [QUEEN, ROOK] {
            for (i, (p, v)) in tb.positions(k).filter(|(_, v)| *v == Val::Win(5)).enumerate() {
                if i % 40 == 0 {
                    deep.push(if i % 80 == 0 { (p.mirror(), v) } else { (p, v) });
                }
            }
        }
    }
    ctx.add("completeness_positions_win_in_5_quick_slice", deep.len() as u64);
    let deep_start = all.len();
    all.extend(deep);
    let sound_depths: Vec<usize> = if quick { vec![1, 2] } else { vec![1, 2, 3, 4] };
    let max_n: u16 = if quick { 3 } else { 5 };
    let sound_stride = if quick { 29 } else { 1 };
    let items: Vec<(usize, &(Pos, Val))> = all.iter().enumerate().collect();
    par_for(ctx, &items, |&(idx, (p, v)), l| {
        if !p.has_legal_move() {
            return;
        }
        let n = if let Val::Win(n) = v { Some(*n) } else { None };
        // completeness: forced mate within n plies, depths n..n+2
        if let Some(n) = n {
            if n <= max_n || idx >= deep_start {
                l.inc("completeness_positions");
                for d in n as usize..=n as usize + 2 {
                    for &seed in &seeds[..if quick { 2 } else { seeds.len() }] {
                        let cfg = Cfg { seed, depth: Some(d), workers: Some(1), plan: None };
                        let run = run_search(p, &cfg, Some(small_artifact(seed, (4, 256))));
                        l.inc("searches");
                        if !check_run(ctx, "", p, &cfg, &run, true, &[]) {
                            return;
                        }
                        let (line, eval) = run.last_best().unwrap();
                        if eval < i32::from(Evaluation::POS_INF) {
                            ctx.violation("forced-mate-missed", format!("{} | {}", p.fen(), cfg.json()), json!({"fen": p.fen(), "config": cfg.json(), "mate_in_plies": n, "evaluation": eval, "line": lan_line(line)}));
                            return;
                        }
                        match tb_value_after(&tb, p, &line[0]) {
                            Some(Val::Loss(_)) => {}
                            other => {
                                ctx.violation("mate-claimed-first-move-spoils", format!("{} | {}", p.fen(), cfg.json()), json!({"fen": p.fen(), "config": cfg.json(), "line": lan_line(line), "successor_value": format!("{:?}", other)}));
                                return;
                            }
                        }
                    }
                }
            }
        }
        // soundness: any winning terminal claim must be a tablebase win, first move preserving
        if idx % sound_stride != 0 || idx >= deep_start {
            return;
        }
        l.inc("soundness_positions");
        for &d in &sound_depths {
            for &seed in &seeds[..if quick { 1 } else { seeds.len() }] {
                let cfg = Cfg { seed, depth: Some(d), workers: Some(1), plan: None };
                let run = run_search(p, &cfg, Some(small_artifact(seed, (4, 256))));
                l.inc("searches");
                if !check_run(ctx, "", p, &cfg, &run, true, &[]) {
                    return;
                }
                for (line, eval) in run.bests() {
                    if eval >= i32::from(Evaluation::POS_INF) {
                        l.inc("mate_claims");
                        let ok_root = matches!(v, Val::Win(_));
                        let ok_move = matches!(tb_value_after(&tb, p, &line[0]), Some(Val::Loss(_)));
                        if !ok_root || !ok_move {
                            ctx.violation("false-mate-claim", format!("{} | {}", p.fen(), cfg.json()), json!({"fen": p.fen(), "config": cfg.json(), "evaluation": eval, "line": lan_line(line), "tablebase_root": format!("{:?}", v), "first_move_preserves": ok_move}));
                            return;
                        }
                    }
                }
            }
        }
    });
    lap("tablebase part");
    // Fmate / 4-man positions through the exhaustive solver
    let no_draw = |_: &Pos| false;
    let fm: Vec<Pos> = collect_families(&[fmate()], if quick { 5 } else { 1 }).into_iter().step_by(if quick { 31 } else { 3 }).collect();
    par_for(ctx, &fm, |p, l| {
        if !p.has_legal_move() {
            return;
        }
        let n = mate_distance(p, if quick { 3 } else { 5 }, &no_draw);
        l.inc("solver_positions");
        let depths: Vec<usize> = match n {
            Some(n) => (n as usize..=n as usize + 2).collect(),
            None => vec![1, 2],
        };
        for d in depths {
            let cfg = Cfg { seed: seeds[0], depth: Some(d), workers: Some(1), plan: None };
            let run = run_search(p, &cfg, Some(small_artifact(seeds[0], (4, 256))));
            l.inc("searches");
            if !check_run(ctx, "", p, &cfg, &run, true, &[]) {
                return;
            }
            let (line, eval) = run.last_best().unwrap();
            let claims = eval >= i32::from(Evaluation::POS_INF);
            if let Some(n) = n {
                l.inc("solver_mates");
                if !claims {
                    ctx.violation("forced-mate-missed", format!("{} | {}", p.fen(), cfg.json()), json!({"fen": p.fen(), "config": cfg.json(), "mate_in_plies": n, "evaluation": eval, "line": lan_line(line)}));
                    return;
                }
            }
            if claims {
                // soundness by the solver: some forced mate must exist within a generous horizon,
                // and the first move must keep one
                let horizon = 7;
                let mv = mv_of(&line[0]);
                let keeps = mate_preserving_moves(p, horizon, &no_draw).contains(&mv);
                if !keeps {
                    ctx.violation("false-mate-claim", format!("{} | {}", p.fen(), cfg.json()), json!({"fen": p.fen(), "config": cfg.json(), "evaluation": eval, "line": lan_line(line), "solver_horizon_plies": horizon}));
                    return;
                }
            }
        }
    });
    lap("Fmate part");
    // mates whose only keys are promotions (and a sibling promotion of the same pawn step is
    // not a key): quick takes every 9th placement of the family, thorough all of them
    {
        let list: Vec<Pos> = promo_key_family(std::env::var("VERIF_PROMO_STRIDE").ok().and_then(|x| x.parse().ok()).unwrap_or(if quick { 9 } else { 1 }));
        // quick: only the under-promotion keys (the queen promotion of that pawn step is
        // legal, looks best at face value, and is not a key)
        let list: Vec<Pos> = if quick { list.into_iter().filter(|p| mate_preserving_moves(p, 3, &no_draw).iter().all(|m| m.promo != QUEEN)).collect() } else { list };
        ctx.add("promotion_key_positions", list.len() as u64);
        par_for(ctx, &list, |p, l| {
            let keys = mate_preserving_moves(p, 3, &no_draw);
            assert!(!keys.is_empty() && keys.iter().all(|m| m.promo != 0) && mate_distance(p, 1, &no_draw).is_none(), "harness error: {} is not a promotion-key mate in 3", p.fen());
            for d in 3..=(if quick { 4usize } else { 5 }) {
                for &seed in &seeds[..if quick { 1 } else { seeds.len() }] {
                    let cfg = Cfg { seed, depth: Some(d), workers: Some(1), plan: None };
                    let run = run_search(p, &cfg, Some(small_artifact(seed, (4, 256))));
                    l.inc("searches");
                    l.inc("promotion_key_searches");
                    if !check_run(ctx, "", p, &cfg, &run, true, &[]) {
                        return;
                    }
                    let (line, eval) = run.last_best().unwrap();
                    if eval < i32::from(Evaluation::POS_INF) {
                        ctx.violation("forced-mate-missed", format!("{} | {}", p.fen(), cfg.json()), json!({"fen": p.fen(), "config": cfg.json(), "mate_in_plies": 3, "only_keys": keys.iter().map(|m| m.lan()).collect::<Vec<_>>(), "evaluation": eval, "line": lan_line(line)}));
                        return;
                    }
                    // the first move must keep a forced mate (any distance the solver can see)
                    let mv = mv_of(&line[0]);
                    if !keys.contains(&mv) && !mate_preserving_moves(p, 7, &no_draw).contains(&mv) {
                        ctx.violation("mate-claimed-first-move-spoils", format!("{} | {}", p.fen(), cfg.json()), json!({"fen": p.fen(), "config": cfg.json(), "line": lan_line(line)}));
                        return;
                    }
                }
            }
        });
    }
    lap("promotion part");
    // positions with many men: any mate claim with a stated distance (score above the
    // terminal threshold encodes the ply of the mate) must be a forced mate within that many
    // plies by the exhaustive solver, and the first move must keep it
    {
        let mut corpus: Vec<Pos> = adversarial_roots();
        corpus.extend(perft_roots().into_iter().map(|x| x.1));
        corpus.extend(many_move_positions());
        let mut level = corpus.clone();
        for _ in 0..(if quick { 1 } else { 2 }) {
            let mut next = Vec::new();
            for p in &level {
                for (_, n) in p.legal() {
                    next.push(n);
                }
            }
            next.sort_by(|a, b| a.key().cmp(&b.key()));
            next.dedup_by(|a, b| a.key() == b.key());
            corpus.extend(next.iter().cloned());
            level = next;
        }
        // realistic middlegames: positions of the recorded games in /repo/book (replayed by
        // the reference model) at plies 16, 20, ... 60
        {
            let mut files: Vec<_> = std::fs::read_dir("/repo/book").map(|d| d.filter_map(|e| e.ok()).map(|e| e.path()).collect()).unwrap_or_default();
            files.sort();
            let mut gi = 0usize;
            for f in &files {
                let Ok(text) = std::fs::read_to_string(f) else { continue };
                for g in oracle::pgn::read_games(&text) {
                    gi += 1;
                    if g.tags.iter().any(|(k, _)| k == "FEN") || gi % (if quick { 6 } else { 2 }) != 0 {
                        continue;
                    }
                    let mut p = Pos::startpos();
                    for (ply, tok) in g.moves.iter().take(61).enumerate() {
                        if ply >= 16 && ply % 4 == 0 {
                            corpus.push(p.clone());
                        }
                        match oracle::san::read_san(&p, tok) {
                            Ok((_, n)) => p = n,
                            Err(_) => break,
                        }
                    }
                }
            }
            // one forcing ply further (every capture and every checking move): positions
            // with pieces en prise and kings in check, where quiescence decides
            let base: Vec<Pos> = corpus.iter().skip(1301).step_by(if quick { 3 } else { 2 }).cloned().collect();
            for p in &base {
                for (m, n) in p.legal() {
                    if m.capture != 0 || n.in_check(n.wtm) {
                        corpus.push(n);
                    }
                }
            }
            corpus.sort_by(|a, b| a.key().cmp(&b.key()));
            corpus.dedup_by(|a, b| a.key() == b.key());
        }
        corpus.retain(|p| p.has_legal_move());
        ctx.add("corpus_soundness_positions", corpus.len() as u64);
        par_for(ctx, &corpus, |p, l| {
            for d in 1..=2usize {
                let cfg = Cfg { seed: seeds[0], depth: Some(d), workers: Some(1), plan: None };
                let run = run_search(p, &cfg, Some(small_artifact(seeds[0], (4, 256))));
                l.inc("searches");
                if !check_run(ctx, "", p, &cfg, &run, true, &[]) {
                    return;
                }
                for (line, eval) in run.bests() {
                    if eval > i32::from(Evaluation::POS_INF) {
                        // 10000 + 100 * (10 - ply)
                        let ply = 10 - (eval - 10_000) / 100;
                        if ply >= 1 && ply <= (if quick { 3 } else { 4 }) {
                            l.inc("corpus_mate_claims");
                            let mv = mv_of(&line[0]);
                            if !mate_preserving_moves(p, ply as u32, &no_draw).contains(&mv) {
                                ctx.violation(
                                    "false-mate-claim",
                                    format!("{} | {}", p.fen(), cfg.json()),
                                    json!({"fen": p.fen(), "config": cfg.json(), "evaluation": eval, "claimed_mate_in_plies": ply, "line": lan_line(line), "explanation": "the exhaustive solver finds no forced mate within the claimed number of plies after this first move"}),
                                );
                                return;
                            }
                        }
                    }
                }
            }
        });
    }
    lap("corpus part");
    let ex = all.iter().find(|(_, v)| matches!(v, Val::Win(3))).unwrap();
    ctx.sample(json!({"position": ex.0.fen(), "tablebase": "side to move mates in 3 plies", "searched_depths": [3, 4, 5], "checked": "final evaluation >= POS_INF and the first move's successor is lost for the opponent per tablebase"}));
    let schedules = loom_part(ctx, crate::loomrun::jobs_c06(quick));
    lap("loom part");
    let exh = ctx.no_caps();
    finish(
        ctx,
        ctx.get("completeness_positions") + ctx.get("soundness_positions") + ctx.get("solver_positions"),
        ctx.get("searches") + schedules,
        ctx.get("searches") + schedules,
        exh,
        &format!("{}{}", "tablebase families (quick: all of KRK strided 1/29 for soundness + every KQK/KRK win in <= 3 plies for completeness; thorough: all of KQK, KRK, KPK, wins in <= 5 plies), both colours as the strong side; soundness: depths 1..2 (thorough 4), every BestMove with evaluation >= POS_INF must be a tablebase win whose first move leads to a tablebase loss for the opponent; completeness: mate in n plies searched at depth n, n+1, n+2 x seeds must end with evaluation >= POS_INF and a mate-preserving first move; Fmate sub-family judged by the exhaustive solver; promotion keys: the family K+P(7th rank)+{Q,R,B,N} v lone K on an edge square, all positions with a mate in exactly 3 plies whose only keys are promotions while a sibling promotion of the same pawn step fails (quick: every 9th placement, the positions whose keys are all under-promotions, at depths 3..4; thorough: all at 3..5 x seeds); many-men corpus (adversarial, perft and many-move roots and their successors, and the positions of the recorded games in /repo/book at plies 16..60): every mate claim with a stated distance <= 3 (thorough 4) plies must be a forced mate within that distance by the solver", LOOM_RULE),
        ASSUME,
    )
}

// ------------------------------------------------------------------ C17

pub fn run_c17(ctx: &Ctx) -> i32 {
    quiet_panics();
    let quick = ctx.quick();
    let tb = Tablebase::build(threads());
    let seeds = seeds(ctx);
    let mut roots: Vec<Pos> = Vec::new();
    for k in [QUEEN, ROOK, PAWN] {
        for (i, (p, v)) in tb.positions(k).enumerate() {
            // all mates in 1 (for the pawn these are mates by promotion: the recorded
            // successor is reached by a pawn move, halfmove clock 0); thorough adds every
            // 12th mate in 3 (the solver for the repetition-aware distance costs 2*10^5
            // nodes per choice there)
            if v == Val::Win(1) || (!quick && v == Val::Win(3) && i % 12 == 0) {
                roots.push(p.mirror());
                roots.push(p);
            }
        }
    }
    let mut roots: Vec<Pos> = roots.into_iter().collect();
    // mates in 3 plies whose fastest first move is the recorded one: the alternative is
    // slower (5 plies), which is where a stale table entry for the recorded position can
    // make the repeating move look better. A strided slice in quick, denser in thorough.
    let shallow = roots.len();
    if quick {
        let stride = 150;
        for k in [QUEEN, ROOK] {
            for (i, (p, _)) in tb.positions(k).filter(|(_, v)| *v == Val::Win(3)).enumerate() {
                if i % stride == 0 {
                    roots.push(if i % (2 * stride) == 0 { p.mirror() } else { p });
                }
            }
        }
    }
    ctx.add("roots_win_in_3_slice", (roots.len() - shallow) as u64);
    let root_index: std::collections::HashMap<Key, usize> = roots.iter().enumerate().map(|(i, p)| (p.key(), i)).collect();
    par_for(ctx, &roots, |p, l| {
        let legal = p.legal();
        // mate-preserving first moves per tablebase
        let winners: Vec<&(Mv, Pos)> = legal.iter().filter(|(_, n)| matches!(tb.probe(n), Some(Val::Loss(_)))).collect();
        if winners.len() < 2 {
            return;
        }
        l.inc("roots");
        let root_key = p.key();
        for (rec_mv, rec_pos) in winners.iter().map(|x| (&x.0, &x.1)) {
            let rec_key = rec_pos.key();
            // the game in which entering the recorded position (or the root again) is a draw
            let drawn = |q: &Pos| {
                let k = q.key();
                k == rec_key || k == root_key
            };
            let deep_root = quick && root_index.get(&root_key).map(|&i| i >= shallow).unwrap_or(false);
            if deep_root && !matches!(tb.probe(rec_pos), Some(Val::Loss(2))) {
                continue; // in the slice only the fastest mating move is recorded
            }
            let Some(n2) = mate_distance(p, if quick && !deep_root { 3 } else { 5 }, &drawn) else {
                l.inc("no_mate_left_within_horizon");
                continue;
            };
            l.inc("recorded_choices");
            for d in n2 as usize..=n2 as usize + 2 {
                for (si, &seed) in seeds[..if quick { 2 } else { seeds.len() }].iter().enumerate() {
                    // two ways for a position to be in the history: recorded by the hook on a
                    // fresh memory, or - as in a real game - because it was the root of an
                    // earlier search on the same memory (then the table knows it too)
                    let mut artifact = small_artifact(seed, (4, 256));
                    if si == 0 && d == n2 as usize {
                        // a game in which the root itself was searched earlier too (a repeated
                        // position, a take-back, `stop` then `go`): root and successor recorded
                        let pre = Cfg { seed: seed + 5, depth: Some(1), workers: Some(1), plan: None };
                        let r0 = run_search(p, &pre, Some(small_artifact(seed, (4, 256))));
                        l.inc("searches");
                        if let Some(mut a) = r0.artifact {
                            a.verif_record_history(&to_state(rec_pos));
                            let cfg = Cfg { seed, depth: Some(d + 1), workers: Some(1), plan: None };
                            let run = run_search(p, &cfg, Some(a));
                            l.inc("searches");
                            l.inc("histories_with_root_searched_before");
                            if check_run(ctx, "", p, &cfg, &run, true, &[format!("{} depth 1", p.fen()), format!("recorded: {}", rec_pos.fen())]) {
                                let (line, eval) = run.last_best().unwrap();
                                let detail = json!({"fen": p.fen(), "recorded": rec_pos.fen(), "recorded_move": rec_mv.lan(), "config": cfg.json(), "evaluation": eval, "line": lan_line(line), "history": [format!("{} depth 1", p.fen()), format!("recorded: {}", rec_pos.fen())]});
                                if eval < i32::from(Evaluation::POS_INF) {
                                    ctx.violation("repetition-avoiding-mate-missed", format!("{} | root searched before, recorded {} | {}", p.fen(), rec_pos.epd(), cfg.json()), detail);
                                    return;
                                } else if mv_of(&line[0]) == *rec_mv {
                                    ctx.violation("repeating-move-chosen", format!("{} | root searched before, recorded {} | {}", p.fen(), rec_pos.epd(), cfg.json()), detail);
                                    return;
                                }
                            }
                        }
                    }
                    if si == 0 && rec_pos.has_legal_move() {
                        let pre = Cfg { seed: seed + 11, depth: Some(d.max(2)), workers: Some(1), plan: None };
                        let r0 = run_search(rec_pos, &pre, Some(artifact));
                        l.inc("searches");
                        l.inc("histories_by_real_search");
                        match r0.artifact {
                            Some(a) => artifact = a,
                            None => {
                                check_run(ctx, "", rec_pos, &pre, &r0, true, &[]);
                                return;
                            }
                        }
                    } else {
                        artifact.verif_record_history(&to_state(rec_pos));
                    }
                    let cfg = Cfg { seed, depth: Some(d), workers: Some(1), plan: None };
                    let run = run_search(p, &cfg, Some(artifact));
                    l.inc("searches");
                    if !check_run(ctx, "", p, &cfg, &run, true, &[format!("recorded: {}", rec_pos.fen())]) {
                        return;
                    }
                    let (line, eval) = run.last_best().unwrap();
                    let first = mv_of(&line[0]);
                    let detail = json!({"fen": p.fen(), "recorded": rec_pos.fen(), "recorded_move": rec_mv.lan(), "config": cfg.json(), "evaluation": eval, "line": lan_line(line), "mate_distance_with_recorded_drawn": n2});
                    if eval < i32::from(Evaluation::POS_INF) {
                        ctx.violation("repetition-avoiding-mate-missed", format!("{} | recorded {} | {}", p.fen(), rec_pos.epd(), cfg.json()), detail);
                        return;
                    }
                    if first == *rec_mv {
                        ctx.violation("repeating-move-chosen", format!("{} | recorded {} | {}", p.fen(), rec_pos.epd(), cfg.json()), detail);
                        return;
                    }
                    // the chosen move must keep a forced mate (tablebase value of its successor)
                    if !matches!(tb_value_after(&tb, p, &line[0]), Some(Val::Loss(_))) {
                        ctx.violation("first-move-spoils-the-mate", format!("{} | recorded {} | {}", p.fen(), rec_pos.epd(), cfg.json()), detail);
                        return;
                    }
                }
            }
        }
        // over-application: the root itself additionally recorded must still be searched
        let mut artifact = small_artifact(1, (4, 256));
        artifact.verif_record_history(&to_state(p));
        let cfg = Cfg { seed: 1, depth: Some(2), workers: Some(1), plan: None };
        let run = run_search(p, &cfg, Some(artifact));
        l.inc("searches");
        if check_run(ctx, "root-recorded-", p, &cfg, &run, true, &[]) {
            let (_, eval) = run.last_best().unwrap();
            if eval < i32::from(Evaluation::POS_INF) {
                // mate in 1 must still be seen at depth 2 when n == 1
                if matches!(tb.probe(p), Some(Val::Win(1))) {
                    ctx.violation("root-treated-as-repetition", p.fen(), json!({"fen": p.fen(), "evaluation": eval}));
                }
            }
        }
    });
    ctx.sample(json!({"position": "8/8/8/8/8/k2r4/8/K7 b - - 4 3", "recorded": "8/8/8/8/8/k7/8/K2r4 w - -", "checked": "winning terminal evaluation, first move is not d3d1, first move still wins when the recorded position is a draw"}));
    let schedules = loom_part(ctx, crate::loomrun::jobs_c17(quick));
    let exh = ctx.no_caps();
    finish(
        ctx,
        ctx.get("roots"),
        ctx.get("searches") + schedules,
        ctx.get("searches") + schedules,
        exh,
        &format!("{}{}", "every KQK/KRK/KPK tablebase position (both colours) with mate in 1 ply (KPK: mates by promotion, i.e. recorded successors reached by a pawn move), plus a strided slice of the mates in 3 plies (quick: every 150th with the fastest mating move recorded; thorough: every 12th with every choice), with at least two mate-preserving first moves; the recorded position enters the history either by the hook on a fresh memory or by really having been searched on the same memory before x every choice of the recorded successor x depths n'..n'+2 (n' = shortest forced mate, <= 5 plies, in the game where entering the recorded position or the root again is a draw, by the exhaustive solver) x seeds; plus the root itself recorded twice", LOOM_RULE),
        ASSUME,
    )
}

// ------------------------------------------------------------------ C19

/// Legal positions with very many legal moves (several queens on an open board): the
/// number of root moves is an input the engine could (wrongly) key decisions on.
pub fn many_move_positions() -> Vec<Pos> {
    [
        "R6R/3Q4/1Q4Q1/4Q3/2Q4Q/Q4Q2/pp1Q4/kBNN1KB1 w - - 0 1",
        "3Q4/1Q4Q1/4Q3/2Q4R/Q4Q2/3Q4/1Q4Rp/1K1BBNNk w - - 0 1",
        "4k3/8/8/Q2Q2Q1/8/8/8/Q3K2Q w - - 0 1",
        "q3k2q/8/8/8/q2q2q1/8/8/4K3 b - - 0 1",
        // 90+ legal moves and no forced mate within three plies (the search runs all iterations)
        "rnbqkbnr/pppppppp/8/8/8/Q1Q1Q1Q1/1Q1Q1Q1Q/4K3 w kq - 0 1",
        "4k3/8/q1q1q1q1/1q1q1q1q/8/8/PPPPPPPP/RNBQKBNR b KQ - 0 1",
        "rnbqkbnr/pppppppp/8/8/1Q4Q1/Q2QQ2Q/8/4K3 w kq - 0 1",
        "4k3/pppppppp/8/8/Q1Q1Q1Q1/1Q1Q1Q1Q/8/4K3 w - - 0 1",
    ]
    .iter()
    .map(|f| {
        let p = Pos::from_fen(f).unwrap();
        assert!(p.is_legal_position(), "not legal: {}", f);
        p
    })
    .collect()
}

fn c19_positions(quick: bool) -> Vec<Pos> {
    let mut v = many_move_positions();
    v.extend(adversarial_roots());
    v.extend(perft_roots().into_iter().map(|x| x.1));
    let fams = [f3(), fcastle(false), fep(false), fpromo()];
    let (stride, step) = if quick { (61, 53) } else { (7, 11) };
    v.extend(collect_families(&fams, stride).into_iter().step_by(step));
    v.retain(|p| p.has_legal_move());
    v
}

fn public_digest(p: &Pos, seed: u64, depth: usize) -> Result<String, String> {
    let (h, tx, rx) = Searcher::new().analyze(to_state(p), seed, Evaluator::default(), Some(depth), None);
    let mut s = String::new();
    while let Ok(e) = rx.recv() {
        match e {
            StatusEvent::BestMove { line, evaluation } => s.push_str(&format!("B[{}]{};", lan_line(&line).join(" "), i32::from(evaluation))),
            StatusEvent::Progress { depth, nodes_searched, .. } => s.push_str(&format!("P{}:{};", depth, nodes_searched)),
            StatusEvent::Warning { .. } => s.push_str("W;"),
        }
    }
    let r = join_timeout(h, 30);
    drop(tx);
    r.map(|_| s)
}

/// mode: 0 = public entry point, 1 = explicit single worker with a roomy small memory,
/// 2 = explicit single worker with a crowded memory (buckets overflow, entries get displaced)
fn c19_cases(quick: bool, seeds: &[u64]) -> Vec<(usize, u64, usize, u8)> {
    let n = c19_positions(quick).len();
    let mut v = Vec::new();
    for i in 0..n {
        for &s in seeds {
            for d in 1..=3 {
                v.push((i, s, d, 0));
            }
            if i % (if quick { 9 } else { 3 }) == 0 {
                v.push((i, s, 4, 1));
                if !quick {
                    v.push((i, s, 5, 1));
                }
            }
            if i % (if quick { 5 } else { 2 }) == 0 {
                v.push((i, s, 3, 2));
                v.push((i, s, 4, 2));
            }
        }
    }
    v
}

fn c19_digest(p: &Pos, seed: u64, depth: usize, mode: u8) -> String {
    if mode == 0 {
        public_digest(p, seed, depth).unwrap_or_else(|e| format!("ERROR {}", e))
    } else {
        let cfg = Cfg { seed, depth: Some(depth), workers: Some(1), plan: None };
        let run = run_search(p, &cfg, Some(small_artifact(seed, if mode == 1 { (4, 256) } else { (1, 2) })));
        match run.panicked {
            Some(m) => format!("ERROR {}", m),
            None => run.digest(),
        }
    }
}

/// Child mode: prints one digest per case, for the cross-process comparison.
pub fn c19_child(tier: &str, seeds_csv: &str) {
    quiet_panics();
    std::env::set_var("WEECHESS_VERIF_TT_MB", "1");
    let quick = tier == "quick";
    let seeds: Vec<u64> = seeds_csv.split(',').map(|s| s.parse().unwrap()).collect();
    let positions = c19_positions(quick);
    let cases = c19_cases(quick, &seeds);
    let out: Vec<std::sync::Mutex<String>> = cases.iter().map(|_| std::sync::Mutex::new(String::new())).collect();
    let ctx = Ctx::new("C19-child", tier, 0);
    let idx: Vec<usize> = (0..cases.len()).collect();
    par_for(&ctx, &idx, |&i, _| {
        let (pi, s, d, mode) = cases[i];
        *out[i].lock().unwrap() = c19_digest(&positions[pi], s, d, mode);
    });
    use std::io::Write;
    let stdout = std::io::stdout();
    let mut w = std::io::BufWriter::new(stdout.lock());
    for o in out {
        writeln!(w, "{}", o.into_inner().unwrap()).unwrap();
    }
}

pub fn run_c19(ctx: &Ctx) -> i32 {
    quiet_panics();
    std::env::set_var("WEECHESS_VERIF_TT_MB", "1");
    let quick = ctx.quick();
    let seeds = seeds(ctx);
    let positions = c19_positions(quick);
    let cases = c19_cases(quick, &seeds);
    // third run in a separate process (different HashMap keys, ASLR, thread ids)
    let exe = std::env::current_exe().unwrap();
    let child = std::process::Command::new(exe)
        .args(["c19-child", &ctx.tier, &seeds.iter().map(|s| s.to_string()).collect::<Vec<_>>().join(",")])
        .stdout(std::process::Stdio::piped())
        .spawn()
        .expect("cannot start child process");
    let first: Vec<std::sync::Mutex<String>> = cases.iter().map(|_| std::sync::Mutex::new(String::new())).collect();
    let idx: Vec<usize> = (0..cases.len()).collect();
    par_for(ctx, &idx, |&i, l| {
        let (pi, s, d, mode) = cases[i];
        let public = mode == 0;
        let a = c19_digest(&positions[pi], s, d, mode);
        let b = c19_digest(&positions[pi], s, d, mode);
        l.add("searches", 2);
        if a.starts_with("ERROR") {
            ctx.violation("search-failed", positions[pi].fen(), json!({"fen": positions[pi].fen(), "seed": s, "depth": d, "error": a}));
        } else if a != b {
            ctx.violation(
                "same-process-runs-differ",
                format!("{} seed {} depth {} {}", positions[pi].fen(), s, d, ["public", "single-worker", "single-worker-crowded-memory"][mode as usize]),
                json!({"fen": positions[pi].fen(), "seed": s, "depth": d, "public_entry_point": public, "memory": if mode == 2 { "1 table x 2 buckets" } else { "roomy" }, "first": a, "second": b}),
            );
        }
        if a.is_empty() || !a.contains("B[") {
            ctx.violation("no-events", positions[pi].fen(), json!({"fen": positions[pi].fen(), "seed": s, "depth": d}));
        }
        *first[i].lock().unwrap() = a;
    });
    let out = child.wait_with_output().expect("child failed");
    assert!(out.status.success(), "child process failed: {:?}", out.status);
    let text = String::from_utf8(out.stdout).unwrap();
    let lines: Vec<&str> = text.lines().collect();
    assert_eq!(lines.len(), cases.len(), "child produced a different number of cases");
    let mut distinct = HashSet::new();
    for (i, c) in cases.iter().enumerate() {
        let a = first[i].lock().unwrap().clone();
        ctx.add("searches", 1);
        distinct.insert(a.clone());
        if a != lines[i] {
            ctx.violation(
                "other-process-run-differs",
                format!("{} seed {} depth {} {}", positions[c.0].fen(), c.1, c.2, ["public", "single-worker", "single-worker-crowded-memory"][c.3 as usize]),
                json!({"fen": positions[c.0].fen(), "seed": c.1, "depth": c.2, "public_entry_point": c.3 == 0, "memory": if c.3 == 2 { "1 table x 2 buckets" } else { "roomy" }, "this_process": a, "other_process": lines[i]}),
            );
        }
    }
    ctx.add("distinct_event_sequences", distinct.len() as u64);
    // independence of what the process searched before: P, then every successor of P (each
    // with fresh memory and the same seed), then P again - the two event sequences of P must
    // be identical (state must not travel between searches except through the artifact)
    {
        let chain_roots: Vec<&Pos> = positions.iter().step_by((positions.len() / if quick { 40 } else { 400 }).max(1)).collect();
        ctx.add("take_back_chains", chain_roots.len() as u64);
        par_for(ctx, &chain_roots, |p, l| {
            for mode in [0u8, 1] {
                let (s, d) = (seeds[0], 3);
                let a = c19_digest(p, s, d, mode);
                for (_, succ) in p.legal().into_iter().take(if quick { 6 } else { 40 }) {
                    if succ.has_legal_move() {
                        let _ = c19_digest(&succ, s, d, mode);
                        l.add("searches", 1);
                    }
                }
                let b = c19_digest(p, s, d, mode);
                l.add("searches", 2);
                if a != b {
                    ctx.violation(
                        "search-depends-on-earlier-searches",
                        format!("{} seed {} depth {} {}", p.fen(), s, d, ["public", "single-worker"][mode as usize]),
                        json!({"fen": p.fen(), "seed": s, "depth": d, "public_entry_point": mode == 0, "between": "every successor searched with fresh memory and the same seed", "first": a, "again": b}),
                    );
                    return;
                }
            }
        });
    }
    // different seeds must be able to give different sequences (the seed is really used)
    ctx.sample(json!({"position": positions[0].fen(), "seed": seeds[0], "depth": 3, "event_sequence": first[2].lock().unwrap().clone()}));
    // the command-line front end: `weechess evaluate --seed` twice in separate processes
    if std::path::Path::new(&crate::ucidrv::cli_path()).exists() {
        let sample: Vec<&Pos> = positions.iter().step_by((positions.len() / if quick { 12 } else { 60 }).max(1)).collect();
        par_for(ctx, &sample, |p, _| {
            for seed in [0u64, 5] {
                crate::clichecks::evaluate_cli_twice(ctx, p, 3, seed);
            }
        });
    } else {
        ctx.note("CLI binary not built: `weechess evaluate --seed` not exercised in this run");
    }
    let schedules = loom_part(ctx, crate::loomrun::jobs_c19(quick));
    let exh = ctx.no_caps();
    finish(
        ctx,
        positions.len() as u64,
        ctx.get("searches") + schedules,
        ctx.get("searches") + schedules,
        exh,
        &format!("{}{}", "every position of a strided complete sub-family (plus the corpus) x seeds {0,1,VERIF_SEED} x depth 1..3 through the public Searcher::analyze (fresh memory, three real threads) and depth 4 (thorough 5) with an explicit single worker, the latter also with a crowded memory of 1 table x 2 buckets at depth 3 and 4 (entries are displaced): the full event sequence (lines, evaluations, depths, node counts) of two runs in this process and of a third run in a separate process must be identical; take-back chains (P, each successor of P, P again, all with fresh memory and one seed): both sequences of P identical; under loom the public entry point (three threads) must produce one and the same event sequence on every schedule", LOOM_RULE),
        ASSUME,
    )
}
