//! `posmc check <ID> --replay FILE`: re-executes exactly the recorded case without the
//! explorer and reports whether the violation reproduces (exit 1) or not (exit 0).
//! Never touches the evidence file.

use crate::report::{Ctx, Local};
use oracle::*;
use serde_json::Value;
use std::sync::atomic::Ordering;

fn fen_of(v: &Value) -> Option<Pos> {
    let d = &v["detail"];
    for k in ["fen", "a"] {
        if let Some(f) = d[k].as_str() {
            if let Some(p) = Pos::from_fen(f) {
                return Some(p);
            }
        }
    }
    // "input" often starts with the FEN
    let inp = v["input"].as_str().unwrap_or("");
    let toks: Vec<&str> = inp.split(' ').collect();
    if toks.len() >= 6 {
        return Pos::from_fen(&toks[..6].join(" "));
    }
    None
}

fn cfg_of(v: &Value) -> crate::search::Cfg {
    let c = &v["detail"]["config"];
    crate::search::Cfg {
        seed: c["seed"].as_u64().unwrap_or(0),
        depth: c["depth"].as_u64().map(|d| d as usize),
        workers: c["workers"].as_u64().map(|w| w as usize),
        plan: if c["plan"].is_null() {
            None
        } else {
            let p = &c["plan"];
            let cancel = if p["cancel_at"].is_string() { usize::MAX } else { p["cancel_at"].as_u64().unwrap_or(0) as usize };
            Some((cancel, p["poll_interval"].as_u64().unwrap_or(0) as usize, p["hard_limit"].as_u64().unwrap_or(0) as usize))
        },
    }
}

pub fn run(ctx: &Ctx, path: &str) -> i32 {
    let text = std::fs::read_to_string(path).unwrap_or_else(|e| panic!("cannot read replay file {}: {}", path, e));
    let v: Value = serde_json::from_str(&text).expect("replay file is not JSON");
    let prop = v["property"].as_str().unwrap_or("").to_string();
    let kind = v["kind"].as_str().unwrap_or("").to_string();
    assert_eq!(prop, ctx.prop, "replay file belongs to property {}", prop);
    println!("replaying {} kind={} input={}", prop, kind, v["input"]);
    let mut l = Local::default();
    crate::search::quiet_panics();
    if kind.starts_with("loom-") {
        let cmd = v["detail"]["command"].as_str().expect("loom replay needs the command");
        let mut parts = cmd.split(' ');
        let exe = parts.next().unwrap();
        let mut c = std::process::Command::new(exe);
        c.args(parts);
        if let Some(ck) = v["detail"]["loom_checkpoint"].as_str() {
            if std::path::Path::new(ck).exists() {
                c.env("LOOMCHK_CHECKPOINT", ck);
            }
        }
        let out = c.output().expect("cannot run loomchk");
        let stdout = String::from_utf8_lossy(&out.stdout);
        println!("{}", stdout.lines().last().unwrap_or(""));
        let bad = !out.status.success() || stdout.lines().last().and_then(|l| serde_json::from_str::<Value>(l).ok()).map(|r| r["violations"].as_array().map(|a| !a.is_empty()).unwrap_or(false)).unwrap_or(true);
        return report(ctx, bad);
    }
    match prop.as_str() {
        "C01" | "C02" => {
            let p = fen_of(&v).expect("no position in replay file");
            crate::lockstep::lockstep(ctx, &p, &mut l, prop == "C01", prop == "C02");
            if kind.starts_with("resolver") {
                crate::lockstep::resolver_check(ctx, &p, &mut l);
            }
        }
        "C05" => crate::poschecks::c05_state(ctx, &fen_of(&v).expect("no position"), &mut l),
        "C13" => crate::poschecks::c13_state(ctx, &fen_of(&v).expect("no position"), &mut l),
        "C10" => {
            let p = fen_of(&v).expect("no position");
            crate::poschecks::c10_state(ctx, &p, &mut l, p.is_legal_position());
            for n in 1..=3 {
                crate::poschecks::c10_histories(ctx, &p, &mut l, n);
            }
        }
        "C12" => crate::poschecks::c12_state(ctx, &fen_of(&v).expect("no position"), &mut l),
        "C08" | "C11" => {
            // the per-state functions need the hasher set of the run
            let p = fen_of(&v).expect("no position");
            crate::poschecks::replay_hash_or_fen(ctx, &prop, &p, &mut l);
        }
        "C03" | "C04" | "C06" | "C17" => {
            let p = fen_of(&v).expect("no position");
            let cfg = cfg_of(&v);
            // histories: earlier searches on the carried artifact
            let mut artifact = Some(crate::search::small_artifact(7, (2, 64)));
            if let Some(h) = v["detail"]["history"].as_array() {
                for item in h {
                    let s = item.as_str().unwrap_or("");
                    if let Some((fen, d)) = s.rsplit_once(" depth ") {
                        if let (Some(q), Ok(d)) = (Pos::from_fen(fen), d.trim_matches(|c: char| !c.is_ascii_digit()).parse::<usize>()) {
                            let c = crate::search::Cfg { seed: 3, depth: Some(d), workers: Some(1), plan: None };
                            artifact = crate::search::run_search(&q, &c, artifact.take()).artifact;
                        }
                    } else if let Some(fen) = s.strip_prefix("recorded: ") {
                        if let (Some(q), Some(a)) = (Pos::from_fen(fen), artifact.as_mut()) {
                            a.verif_record_history(&crate::bridge::to_state(&q));
                        }
                    }
                }
            }
            if let Some(fen) = v["detail"]["recorded"].as_str() {
                if let (Some(q), Some(a)) = (Pos::from_fen(fen), artifact.as_mut()) {
                    a.verif_record_history(&crate::bridge::to_state(&q));
                }
            }
            let run = crate::search::run_search(&p, &cfg, artifact);
            println!("events: {}", run.digest());
            println!("nodes={} overrun={} cancelled={} panicked={:?}", run.nodes, run.overrun, run.cancelled, run.panicked);
            crate::search::check_run(ctx, "", &p, &cfg, &run, p.has_legal_move() && cfg.plan.is_none(), &[]);
            if run.overrun {
                ctx.violation("stop-not-obeyed", p.fen(), serde_json::json!({}));
            }
            if let Some((line, eval)) = run.last_best() {
                println!("final: {:?} eval {}", line.iter().map(|m| crate::bridge::mv_of(m).lan()).collect::<Vec<_>>(), eval);
                if kind.contains("mate-missed") && eval < 10_000 {
                    ctx.violation(&kind, p.fen(), serde_json::json!({"evaluation": eval}));
                }
                if kind == "repeating-move-chosen" && v["detail"]["recorded_move"].as_str() == Some(crate::bridge::mv_of(&line[0]).lan().as_str()) {
                    ctx.violation(&kind, p.fen(), serde_json::json!({}));
                }
            }
        }
        "C07" | "C18" | "C14" => crate::ucichecks::replay(ctx, &v, &mut l),
        _ => panic!("no replay for {}", prop),
    }
    report(ctx, ctx.violation_total.load(Ordering::SeqCst) > 0)
}

fn report(ctx: &Ctx, reproduced: bool) -> i32 {
    for v in ctx.violations.lock().unwrap().iter() {
        println!("  violation kind={} input={} detail={}", v.kind, v.input, v.detail);
    }
    if reproduced {
        println!("REPRODUCED property={}", ctx.prop);
        1
    } else {
        println!("NOT-REPRODUCED property={}", ctx.prop);
        0
    }
}
