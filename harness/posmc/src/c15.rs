//! C15: the transposition table as a faithful bounded map.
//! Sequential part: a stateright model whose state *is* the real table (through the
//! hook wrapper) paired with a boring reference; every reachable state up to a depth
//! bound is checked. Concurrent part: loom (see loomrun::jobs_c15).

use crate::report::{finish, Ctx};
use serde_json::json;
use stateright::{Checker, Model, Property};
use std::collections::{BTreeMap, BTreeSet};
use std::hash::{Hash, Hasher};
use std::sync::Arc;
use weechess_core::{Color, Move, Piece, PieceIndex, Square};
use weechess_engine::searcher::verif::{VerifEntry, VerifTable};

fn entry_for(key: u64, v: u8) -> VerifEntry {
    VerifEntry {
        kind: v % 3,
        performed_move: Move::by_moving(
            PieceIndex::new(Color::White, Piece::Knight),
            Square::try_from((key % 64) as u8).unwrap(),
            Square::try_from(((key / 7 + v as u64 * 5 + 1) % 64) as u8).unwrap(),
        ),
        depth: v as usize,
        max_depth: v as usize + 1,
        evaluation: v as i32 * 10 - 5,
    }
}

#[derive(Clone)]
pub struct TState {
    table: Arc<VerifTable>,
    /// latest value stored under each key
    latest: BTreeMap<u64, VerifEntry>,
    /// keys the model says are retrievable
    live: BTreeSet<u64>,
    depth: usize,
    err: Option<String>,
}

impl PartialEq for TState {
    fn eq(&self, o: &Self) -> bool {
        self.depth == o.depth && self.latest == o.latest && self.live == o.live && self.err == o.err && self.table.slots() == o.table.slots() && self.table.used_slots() == o.table.used_slots()
    }
}
impl Eq for TState {}
impl Hash for TState {
    fn hash<H: Hasher>(&self, h: &mut H) {
        self.depth.hash(h);
        self.table.slots().hash(h);
        self.table.used_slots().hash(h);
        self.latest.hash(h);
        self.live.hash(h);
        self.err.hash(h);
    }
}
impl std::fmt::Debug for TState {
    fn fmt(&self, f: &mut std::fmt::Formatter<'_>) -> std::fmt::Result {
        write!(f, "TState(depth {}, live {:?}, err {:?})", self.depth, self.live, self.err)
    }
}

#[derive(Clone, Debug, PartialEq, Eq, Hash)]
pub struct Insert {
    key: u64,
    val: u8,
}

pub struct TableModel {
    tables: usize,
    buckets: usize,
    keys: Vec<(u64, Vec<u8>)>,
    max_depth: usize,
    /// insert sequences that lead to the additional start states (replayed through
    /// `next_state`, so they are checked like every other transition)
    prefills: Vec<Vec<Insert>>,
}

impl TableModel {
    fn route(&self, key: u64) -> (usize, usize) {
        // the routing under test: sub-table by hash % tables, bucket by hash % buckets
        ((key as usize) % self.tables, (key as usize) % self.buckets)
    }

    fn check(&self, s: &TState, just_inserted: Option<(&Insert, &BTreeSet<u64>)>) -> Option<String> {
        let t = &s.table;
        // (1) a lookup returns nothing or the most recent entry stored under exactly that key
        let mut retrievable = BTreeSet::new();
        for (k, _) in &self.keys {
            match (t.find(*k), s.latest.get(k)) {
                (None, _) => {}
                (Some(e), Some(l)) if e == *l => {
                    retrievable.insert(*k);
                }
                (Some(e), other) => return Some(format!("find({}) returned {:?} but the latest entry stored under that key is {:?}", k, e, other)),
            }
        }
        // (4) reported count equals occupied slots and never exceeds capacity
        if t.entries() != t.occupied_slots() {
            return Some(format!("entries() = {} but {} slots are occupied", t.entries(), t.occupied_slots()));
        }
        if t.entries() > t.max_entries() {
            return Some(format!("entries() = {} exceeds capacity {}", t.entries(), t.max_entries()));
        }
        if t.occupied_slots() != retrievable.len() {
            return Some(format!("{} slots occupied but {} keys retrievable (a slot is unreachable or duplicated)", t.occupied_slots(), retrievable.len()));
        }
        if let Some((ins, before)) = just_inserted {
            // (2) read-your-write
            if !retrievable.contains(&ins.key) {
                return Some(format!("find({}) fails right after insert", ins.key));
            }
            // (3) an entry stays retrievable until displaced by an insertion into its full
            // bucket; such an insertion displaces exactly one other key
            let same_bucket = |k: &u64| self.route(*k) == self.route(ins.key);
            let in_bucket = before.iter().filter(|k| same_bucket(k)).count();
            let lost: Vec<u64> = before.iter().filter(|k| !retrievable.contains(k)).copied().collect();
            let full = in_bucket >= VerifTable::BUCKET_SIZE;
            if before.contains(&ins.key) || !full {
                if !lost.is_empty() {
                    return Some(format!("insert({}) into a bucket with {} live keys displaced {:?}", ins.key, in_bucket, lost));
                }
            } else if lost.len() != 1 || !same_bucket(&lost[0]) {
                return Some(format!("insert({}) into a full bucket displaced {:?} (exactly one key of that bucket expected)", ins.key, lost));
            }
        }
        if retrievable != s.live {
            return Some(format!("model live set {:?} != retrievable {:?}", s.live, retrievable));
        }
        None
    }
}

impl Model for TableModel {
    type State = TState;
    type Action = Insert;

    fn init_states(&self) -> Vec<TState> {
        let empty = TState {
            table: Arc::new(VerifTable::new(self.tables, self.buckets)),
            latest: BTreeMap::new(),
            live: BTreeSet::new(),
            depth: 0,
            err: None,
        };
        let mut out = vec![empty.clone()];
        for seq in &self.prefills {
            let mut s = empty.clone();
            for a in seq {
                let mut n = self.next_state(&s, a.clone()).unwrap();
                if n.err.is_none() {
                    n.depth = 0; // depth counts from the start state
                } else {
                    n.depth = 0;
                    out.push(n.clone());
                    break;
                }
                s = n;
            }
            out.push(s);
        }
        out
    }

    fn actions(&self, s: &TState, out: &mut Vec<Insert>) {
        if s.err.is_some() || s.depth >= self.max_depth {
            return;
        }
        for (k, vals) in &self.keys {
            for v in vals {
                out.push(Insert { key: *k, val: *v });
            }
        }
    }

    fn next_state(&self, s: &TState, a: Insert) -> Option<TState> {
        let table = s.table.deep_clone();
        let e = entry_for(a.key, a.val);
        table.insert(a.key, e);
        let mut n = TState {
            table: Arc::new(table),
            latest: s.latest.clone(),
            live: BTreeSet::new(),
            depth: s.depth + 1,
            err: None,
        };
        n.latest.insert(a.key, e);
        // the live set is read back from the implementation and then *checked* against the
        // displacement rule relative to the previous live set
        for (k, _) in &self.keys {
            if n.table.find(*k).is_some() {
                n.live.insert(*k);
            }
        }
        n.err = self.check(&n, Some((&a, &s.live)));
        Some(n)
    }

    fn properties(&self) -> Vec<Property<Self>> {
        vec![Property::always("faithful bounded map", |_, s: &TState| s.err.is_none())]
    }
}

pub fn run_c15(ctx: &Ctx) -> i32 {
    let quick = ctx.quick();
    let shapes: Vec<(usize, usize)> = vec![(1, 1), (1, 2), (2, 1), (2, 2), (2, 3), (3, 2)];
    let mut total_states = 0u64;
    let mut total_generated = 0u64;
    for (tables, buckets) in shapes {
        let l = {
            fn gcd(a: usize, b: usize) -> usize {
                if b == 0 {
                    a
                } else {
                    gcd(b, a % b)
                }
            }
            (tables * buckets / gcd(tables, buckets)) as u64
        };
        // colliding keys (same sub-table, same bucket), more than a bucket holds
        let n_coll = if quick { 9 } else { 10 };
        let mut keys: Vec<(u64, Vec<u8>)> = (0..n_coll).map(|i| (1 + i * l, if !quick && i < 2 { vec![1, 2] } else { vec![1] })).collect();
        // keys elsewhere, key 0 and u64::MAX
        keys.push((2, vec![1]));
        keys.push((0, vec![3]));
        // keys that agree with a colliding key in the low 32 bits (and in table and bucket)
        keys.push((1 + (l << 32), vec![5]));
        keys.push((1 + l + (l << 40), vec![6]));
        if !quick {
            keys.push((u64::MAX, vec![4]));
            keys.push((3, vec![1]));
        }
        // two values for one colliding key also in quick (same-key overwrite, replacement slot depends on the move)
        keys[0].1 = vec![1, 2];
        // start states: the empty table and three full buckets (filled ascending, descending,
        // interleaved; the last one also overwrites a key once)
        let coll: Vec<u64> = (0..8u64).map(|i| 1 + i * l).collect();
        let asc: Vec<Insert> = coll.iter().map(|&k| Insert { key: k, val: 1 }).collect();
        let desc: Vec<Insert> = coll.iter().rev().map(|&k| Insert { key: k, val: 1 }).collect();
        let mut inter: Vec<Insert> = [0usize, 7, 1, 6, 2, 5, 3, 4].iter().map(|&i| Insert { key: coll[i], val: 1 }).collect();
        inter.insert(3, Insert { key: coll[0], val: 2 });
        let prefills = vec![asc, desc, inter];
        let depth = if quick { 6 } else { 7 };
        let run = |threads: usize| {
            let c = TableModel { tables, buckets, keys: keys.clone(), max_depth: depth, prefills: prefills.clone() }.checker().threads(threads).spawn_bfs().join();
            let disc = c.discoveries();
            (c.unique_state_count() as u64, c.state_count() as u64, disc.into_iter().map(|(n, p)| (n, format!("{:?}", p.into_actions()), format!("{:?}", 0))).collect::<Vec<_>>())
        };
        let (unique, generated, disc) = run(crate::explore::threads());
        total_states += unique;
        total_generated += generated;
        ctx.add(&format!("states.{}x{}", tables, buckets), unique);
        for (name, actions, _) in &disc {
            // re-derive the error text by replaying the path on the real table
            ctx.violation("table-not-a-faithful-map", format!("{}x{} {}", tables, buckets, actions), json!({"tables": tables, "buckets": buckets, "property": name, "inserts": actions}));
        }
        if (tables, buckets) == (1, 1) {
            // determinism of the parallel search: a second run must visit the same number of states
            let (u2, _, _) = run(2);
            if u2 != unique && disc.is_empty() {
                // not a verdict on C15: the table's replacement choice is not a function of its
                // inputs (that is C19's business); the exploration then is over one resolution
                ctx.note(format!("state count differs between two explorations of the 1x1 shape ({} vs {}): the implementation's replacement choice is not deterministic", unique, u2));
            }
            ctx.sample(json!({"shape": "1x1", "keys": keys.iter().map(|k| k.0).collect::<Vec<_>>(), "depth": depth, "unique_states": unique, "checked_in_every_state": "find returns nothing or the latest entry of exactly that key; read-your-write; displacement only from a full bucket and exactly one key; entries()==occupied<=capacity"}));
        }
    }
    let schedules = if std::env::var("VERIF_SKIP_LOOM").is_ok() {
        0
    } else {
        let r = crate::loomrun::run_jobs(ctx, &crate::loomrun::jobs_c15(quick));
        ctx.set_extra("loom_summary", json!({"jobs": r.jobs, "schedules": r.executions, "bound": "none (all schedules)"}));
        r.executions
    };
    let exh = ctx.no_caps();
    finish(
        ctx,
        total_states,
        total_generated + schedules,
        total_generated + schedules,
        exh,
        "sequential: stateright BFS over every insert sequence up to depth 6 (quick) / 7 (thorough) from four start states (the empty table and a bucket filled with 8 keys in three different orders, i.e. effective depths up to 14-17) on six table shapes (1x1,1x2,2x1,2x2,2x3,3x2) with 9-10 keys forced into one bucket of one sub-table, keys elsewhere, key 0 and u64::MAX, two values per key for some; the state is the real table (cloned through the hook) and every state is checked with finds of all keys; concurrent: loom, all schedules of 2-3 threads x <= 2 operations on colliding keys (also starting from a full bucket), each history checked for linearizability against the table run sequentially",
        &["the model's transition function is the real TranspositionTableAccess::insert/find reached through the cfg(weechess_verif) wrapper, so conformance is by construction", "loom models the RwLock; more than 3 threads are not explored"],
    )
}
