//! Orchestration of the loom harness (Engine C): runs a catalogue of `loomchk`
//! configurations as child processes, iterating the preemption bound, and merges
//! their results into the property's evidence.

use crate::explore::threads;
use crate::report::Ctx;
use oracle::tb::{Tablebase, Val};
use oracle::*;
use serde_json::{json, Value};
use std::process::Command;
use std::sync::atomic::{AtomicUsize, Ordering};
use std::sync::Mutex;

#[derive(Clone, Debug)]
pub struct Job {
    pub harness: &'static str,
    pub args: Vec<String>,
    pub pb: Option<usize>,
    pub max_secs: u64,
}

fn job(harness: &'static str, pb: Option<usize>, max_secs: u64, args: &[(&str, String)]) -> Job {
    let mut a = Vec::new();
    for (k, v) in args {
        a.push(format!("--{}", k));
        a.push(v.clone());
    }
    Job { harness, args: a, pb, max_secs }
}

fn loomchk_path() -> String {
    std::env::var("VERIF_LOOMCHK").unwrap_or_else(|_| "/verif/target/loom/checked/loomchk".into())
}

pub struct LoomSummary {
    pub jobs: usize,
    pub executions: u64,
    pub max_bound_completed: Option<usize>,
}

/// Runs the jobs (in parallel), records violations in `ctx`, returns totals.
pub fn run_jobs(ctx: &Ctx, jobs: &[Job]) -> LoomSummary {
    let next = AtomicUsize::new(0);
    let results: Mutex<Vec<(usize, Value)>> = Mutex::new(Vec::new());
    let exe = loomchk_path();
    std::thread::scope(|s| {
        for _ in 0..threads().min(jobs.len().max(1)) {
            s.spawn(|| loop {
                let i = next.fetch_add(1, Ordering::Relaxed);
                if i >= jobs.len() {
                    break;
                }
                let j = &jobs[i];
                let ckpt = format!("/verif/target/loom-ckpt-{}-{}-{}.json", ctx.prop, std::process::id(), i);
                let _ = std::fs::remove_file(&ckpt);
                let mut cmd = Command::new(&exe);
                cmd.arg(j.harness)
                    .arg("--pb")
                    .arg(j.pb.map(|p| p.to_string()).unwrap_or_else(|| "none".into()))
                    .arg("--max-secs")
                    .arg(j.max_secs.to_string())
                    .args(&j.args)
                    .env("LOOMCHK_CHECKPOINT", &ckpt)
                    .env("RUST_BACKTRACE", "0");
                let out = cmd.output().expect("cannot run loomchk (was bin/build loom run?)");
                let stdout = String::from_utf8_lossy(&out.stdout).to_string();
                let stderr = String::from_utf8_lossy(&out.stderr).to_string();
                let cmdline = format!("{} {} --pb {} {}", exe, j.harness, j.pb.map(|p| p.to_string()).unwrap_or_else(|| "none".into()), j.args.join(" "));
                let v: Value = if out.status.success() {
                    let _ = std::fs::remove_file(&ckpt);
                    match stdout.lines().last().and_then(|l| serde_json::from_str::<Value>(l).ok()) {
                        Some(v) => v,
                        None => json!({"machinery_error": "no JSON result", "stdout": stdout}),
                    }
                } else {
                    // a panic of the engine under test, or a deadlock found by loom, aborts the
                    // model: that is itself the violation; the checkpoint replays the schedule
                    let msg: String = stderr
                        .lines()
                        .filter(|l| l.contains("panicked") || l.contains("deadlock") || l.contains("assert") || l.contains("Deadlock"))
                        .take(4)
                        .collect::<Vec<_>>()
                        .join(" | ");
                    let keep = format!("/verif/replays/{}-loom-{}.ckpt.json", ctx.prop, i);
                    let _ = std::fs::create_dir_all("/verif/replays");
                    let _ = std::fs::rename(&ckpt, &keep);
                    json!({"aborted": true, "message": if msg.is_empty() { stderr.lines().rev().take(5).collect::<Vec<_>>().join(" | ") } else { msg }, "checkpoint": keep})
                };
                let mut v = v;
                v["command"] = json!(cmdline);
                results.lock().unwrap().push((i, v));
            });
        }
    });
    let mut results = results.into_inner().unwrap();
    results.sort_by_key(|x| x.0);
    let mut executions = 0u64;
    let mut max_bound: Option<usize> = None;
    let mut all_completed = true;
    let mut summaries = Vec::new();
    for (i, v) in &results {
        let j = &jobs[*i];
        if v.get("machinery_error").is_some() {
            panic!("loomchk produced no result for {:?}: {}", j, v);
        }
        if v["aborted"].as_bool() == Some(true) {
            let msg = v["message"].as_str().unwrap_or("").to_string();
            if msg.contains("self.threads.len() < self.max()") || msg.contains("max_branches") || msg.contains("exceeded") {
                // a limit of the exploration tool, not a behaviour of the engine
                panic!("loom tool limit hit by harness configuration {:?}: {}", j, msg);
            }
            let kind = if msg.to_lowercase().contains("deadlock") { "loom-deadlock" } else { "loom-engine-panic" };
            ctx.violation(kind, v["command"].as_str().unwrap_or("").to_string(), json!({"harness": j.harness, "command": v["command"], "message": msg, "loom_checkpoint": v["checkpoint"], "replay": "re-run the command with LOOMCHK_CHECKPOINT=<checkpoint> to resume at the failing schedule"}));
            continue;
        }
        let ex = v["executions"].as_u64().unwrap_or(0);
        executions += ex;
        let completed = v["completed"].as_bool().unwrap_or(false);
        if !completed {
            all_completed = false;
            ctx.cap(format!("loom {} stopped at its time cap after {} schedules (bound {:?})", v["command"], ex, j.pb));
        } else if let Some(b) = j.pb {
            max_bound = Some(max_bound.map(|m: usize| m.max(b)).unwrap_or(b));
        }
        for viol in v["violations"].as_array().cloned().unwrap_or_default() {
            let kind = format!("loom-{}", viol["kind"].as_str().unwrap_or("violation"));
            ctx.violation(&kind, v["command"].as_str().unwrap_or("").to_string(), json!({"harness": j.harness, "command": v["command"], "preemption_bound": j.pb, "detail": viol}));
        }
        if v["distinct_outcomes"].as_u64() == Some(1) && ex > 1 {
            ctx.add("loom_jobs_with_single_outcome", 1);
        }
        ctx.add("loom_distinct_outcomes_total", v["distinct_outcomes"].as_u64().unwrap_or(0));
        summaries.push(json!({"command": v["command"], "preemption_bound": j.pb, "schedules": ex, "distinct_outcomes": v["distinct_outcomes"], "completed": completed, "wall_s": v["wall_s"]}));
    }
    ctx.add("loom_schedules", executions);
    ctx.add("loom_jobs", jobs.len() as u64);
    ctx.set_extra("loom_jobs", Value::Array(summaries.clone()));
    if let Some(first) = results.iter().find(|(_, v)| v.get("outcomes").is_some()) {
        ctx.sample(json!({"loom_harness": first.1["command"], "schedules": first.1["executions"], "outcomes": first.1["outcomes"]}));
    }
    let _ = all_completed;
    LoomSummary { jobs: jobs.len(), executions, max_bound_completed: max_bound }
}

const KPK: &str = "8/8/8/4k3/8/8/3P4/4K3 w - - 0 1";

fn bounds(quick: bool) -> Vec<Option<usize>> {
    if quick {
        vec![Some(0), Some(1), Some(2)]
    } else {
        vec![Some(0), Some(1), Some(2), Some(3)]
    }
}

fn s(x: impl ToString) -> String {
    x.to_string()
}

pub fn jobs_c03(quick: bool) -> Vec<Job> {
    let mut v = Vec::new();
    let t = if quick { 60 } else { 400 };
    for pb in bounds(quick) {
        // (fen, fen2, depth, workers, tables, buckets)
        let mut menu: Vec<(&str, Option<&str>, usize, usize, usize, usize)> = vec![
            (KPK, None, 2, 2, 1, 64),
            (KPK, None, 2, 2, 1, 1),
            (KPK, None, 1, 3, 1, 1),
            ("4k3/8/8/8/8/8/8/4K2R w K - 0 1", Some("4k3/8/8/8/8/8/8/4K2R w - - 0 1"), 2, 2, 1, 64),
            ("4k3/8/8/3pP3/8/8/8/4K3 w - d6 0 1", Some("4k3/8/8/3pP3/8/8/8/4K3 w - - 0 1"), 2, 2, 1, 64),
            ("8/4P1k1/8/8/8/8/8/4K3 w - - 0 1", None, 2, 2, 2, 4),
        ];
        if pb != Some(3) {
            // depth 3, two workers: 2*10^4 schedules at bound 2 (about 10 s)
            menu.push((KPK, None, 3, 2, 1, 64));
            if !quick || pb != Some(2) {
                menu.push((KPK, None, 3, 2, 1, 1));
            }
        }
        if !quick {
            menu.push(("r3k3/8/8/8/8/8/8/4K2R w Kq - 0 1", Some("r3k3/8/8/8/8/8/8/4K2R w - - 0 1"), 2, 2, 1, 8));
            menu.push(("7k/8/8/8/8/8/6p1/4K3 b - - 0 1", None, 2, 2, 1, 2));
        }
        for (fen, fen2, d, w, tb, bk) in menu {
            let mut a = vec![("fen", s(fen)), ("depth", s(d)), ("workers", s(w)), ("tables", s(tb)), ("buckets", s(bk))];
            if let Some(f2) = fen2 {
                a.push(("fen2", s(f2)));
            }
            v.push(job("workers_lines", pb, t, &a));
        }
    }
    if !quick {
        // the smallest harnesses without any preemption bound: every schedule
        v.push(job("workers_lines", None, 900, &[("fen", s(KPK)), ("depth", s(1)), ("workers", s(2)), ("tables", s(1)), ("buckets", s(1))]));
        v.push(job("workers_lines", None, 900, &[("fen", s(KPK)), ("depth", s(1)), ("workers", s(3)), ("tables", s(1)), ("buckets", s(64))]));
        v.push(job("workers_lines", None, 1500, &[("fen", s(KPK)), ("depth", s(2)), ("workers", s(2)), ("tables", s(1)), ("buckets", s(64))]));
    }
    v
}

pub fn jobs_c04(quick: bool) -> Vec<Job> {
    let mut v = Vec::new();
    let t = if quick { 60 } else { 400 };
    for pb in bounds(quick) {
        for script in ["join", "stop-join", "stop-twice", "drop-receiver-stop", "drop-sender", "stop-after-completion"] {
            for fen in [KPK, "7k/5Q2/6K1/8/8/8/8/8 b - - 0 1", "k7/8/1K6/8/8/8/8/1Q6 w - - 0 1"] {
                for depth in ["1", "2", "none"] {
                    if depth == "none" && (script == "join" || script == "stop-after-completion") && false {
                        continue;
                    }
                    if quick && pb == Some(2) && depth == "2" && fen != KPK {
                        continue;
                    }
                    v.push(job("analyze_protocol", pb, t, &[("fen", s(fen)), ("depth", s(depth)), ("script", s(script)), ("tables", s(1)), ("buckets", s(16))]));
                }
            }
        }
    }
    v
}

fn tb_examples(tb: &Tablebase, kind: u8, n: u16, count: usize) -> Vec<Pos> {
    let all: Vec<Pos> = tb.positions(kind).filter(|(_, v)| *v == Val::Win(n)).map(|x| x.0).collect();
    let step = (all.len() / count).max(1);
    all.into_iter().step_by(step).take(count).collect()
}

fn root_win(tb: &Tablebase, p: &Pos) -> usize {
    match tb.probe(p) {
        Some(Val::Win(n)) => n as usize,
        _ => 0,
    }
}

fn good_moves(tb: &Tablebase, p: &Pos) -> String {
    p.legal().into_iter().filter(|(_, n)| matches!(tb.probe(n), Some(Val::Loss(_)))).map(|(m, _)| m.lan()).collect::<Vec<_>>().join(",")
}

pub fn jobs_c06(quick: bool) -> Vec<Job> {
    let tb = Tablebase::build(threads());
    let mut v = Vec::new();
    let t = if quick { 60 } else { 400 };
    let mut roots: Vec<(Pos, u16)> = Vec::new();
    for k in [QUEEN, ROOK] {
        for n in [1u16, 3] {
            for p in tb_examples(&tb, k, n, if quick { 2 } else { 3 }) {
                roots.push((p.clone(), n));
                roots.push((p.mirror(), n));
            }
        }
    }
    // one drawn and one longer win: no false mate claims under any schedule
    roots.push((Pos::from_fen("8/8/8/4k3/8/8/3R4/4K3 w - - 0 1").unwrap(), 99));
    for pb in bounds(quick) {
        for (p, n) in &roots {
            let depths: Vec<usize> = if *n == 99 { vec![2] } else { (*n as usize..=3).collect() };
            for d in depths {
                // depth 3 with two preemptions is 4*10^4..10^5 schedules per root: thorough only,
                // and not with three preemptions (10^6 and more)
                if (quick && pb == Some(2) && d == 3) || (pb == Some(3) && d == 3) {
                    continue;
                }
                v.push(job("workers_mate", pb, t, &[("fen", p.fen()), ("depth", s(d)), ("workers", s(2)), ("tables", s(1)), ("buckets", s(32)), ("root-win", s(root_win(&tb, p))), ("good", good_moves(&tb, p))]));
            }
            if *n == 1 {
                v.push(job("workers_mate", pb, t, &[("fen", p.fen()), ("depth", s(1)), ("workers", s(3)), ("tables", s(1)), ("buckets", s(1)), ("root-win", s(root_win(&tb, p))), ("good", good_moves(&tb, p))]));
            }
        }
    }
    v
}

pub fn jobs_c15(quick: bool) -> Vec<Job> {
    let mut v = Vec::new();
    let t = if quick { 60 } else { 400 };
    for (tables, buckets) in [(1, 1), (2, 1), (1, 2), (2, 3)] {
        for variant in 0..6 {
            // tiny harnesses: all schedules (no preemption bound)
            v.push(job("tt_linearizable", None, t, &[("tables", s(tables)), ("buckets", s(buckets)), ("variant", s(variant))]));
        }
    }
    v
}

pub fn jobs_c17(quick: bool) -> Vec<Job> {
    use oracle::tb::mate_distance;
    let mut v = Vec::new();
    let t = if quick { 60 } else { 400 };
    let tb = Tablebase::build(threads());
    let mut roots = vec![Pos::from_fen("8/8/8/8/8/k2r4/8/K7 b - - 4 3").unwrap()];
    for k in [QUEEN, ROOK] {
        for p in tb_examples(&tb, k, 1, if quick { 2 } else { 6 }) {
            roots.push(p.mirror());
            roots.push(p);
        }
    }
    for pb in bounds(quick) {
        for p in &roots {
            let winners: Vec<(Mv, Pos)> = p.legal().into_iter().filter(|(_, n)| matches!(tb.probe(n), Some(Val::Loss(_)))).collect();
            if winners.len() < 2 {
                continue;
            }
            let root_key = p.key();
            for (rec_mv, rec_pos) in winners.iter().take(if quick { 2 } else { 4 }) {
                let rec_key = rec_pos.key();
                let drawn = |q: &Pos| {
                    let k = q.key();
                    k == rec_key || k == root_key
                };
                let Some(n2) = mate_distance(p, 3, &drawn) else { continue };
                for d in [n2 as usize, n2 as usize + 1] {
                    if d > 3 || (quick && pb == Some(2) && d == 3) {
                        continue; // loom: two workers x three iterations is the thread limit
                    }
                    v.push(job(
                        "workers_history",
                        pb,
                        t,
                        &[("fen", p.fen()), ("workers", s(2)), ("depth", s(d)), ("rec-fen", rec_pos.fen()), ("rec-move", rec_mv.lan()), ("good", good_moves(&tb, p)), ("tables", s(1)), ("buckets", s(32))],
                    ));
                }
            }
        }
    }
    v
}

pub fn jobs_c19(quick: bool) -> Vec<Job> {
    let mut v = Vec::new();
    let t = if quick { 60 } else { 400 };
    let mut bs = bounds(quick);
    bs.push(Some(3));
    bs.dedup();
    for pb in bs {
        for fen in [KPK, "4k3/8/8/8/8/8/8/4K2R w K - 0 1", "8/8/8/8/8/k2r4/8/K7 b - - 4 3"] {
            for depth in [1, 2] {
                v.push(job("analyze_deterministic", pb, t, &[("fen", s(fen)), ("depth", s(depth)), ("script", s("join")), ("tables", s(1)), ("buckets", s(16))]));
            }
        }
    }
    v
}
