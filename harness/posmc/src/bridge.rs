//! Conversions between the reference model's values and weechess' values.
//! Positions are built through the public constructors (not through FEN), so a
//! FEN bug can not masquerade as a move-generation bug and vice versa.

use oracle::*;
use weechess_core::{
    utils::ArrayMap, Board, CastleRights, Clock, Color, Move, Piece, PieceIndex, Side, Square,
    State,
};

pub fn w_color(white: bool) -> Color {
    if white {
        Color::White
    } else {
        Color::Black
    }
}

pub fn w_piece(kind: u8) -> Piece {
    match kind {
        PAWN => Piece::Pawn,
        KNIGHT => Piece::Knight,
        BISHOP => Piece::Bishop,
        ROOK => Piece::Rook,
        QUEEN => Piece::Queen,
        KING => Piece::King,
        _ => Piece::None,
    }
}

pub fn o_kind(p: Piece) -> u8 {
    match p {
        Piece::Pawn => PAWN,
        Piece::Knight => KNIGHT,
        Piece::Bishop => BISHOP,
        Piece::Rook => ROOK,
        Piece::Queen => QUEEN,
        Piece::King => KING,
        Piece::None => 0,
    }
}

pub fn w_square(s: u8) -> Square {
    Square::try_from(s).unwrap()
}

pub fn o_square(s: Square) -> u8 {
    // file/rank accessors rather than the raw index, to stay orientation-explicit
    (s.rank().index() * 8 + s.file().index()) as u8
}

pub fn to_state(p: &Pos) -> State {
    let mut map = Board::empty_map();
    for s in 0..64u8 {
        let c = p.b[s as usize];
        if c != EMPTY {
            map[w_square(s)] = PieceIndex::new(w_color(is_white(c)), w_piece(kind(c)));
        }
    }
    let rights: ArrayMap<Color, CastleRights> = ArrayMap::new([
        CastleRights {
            kingside: p.cr & WK != 0,
            queenside: p.cr & WQ != 0,
        },
        CastleRights {
            kingside: p.cr & BK != 0,
            queenside: p.cr & BQ != 0,
        },
    ]);
    State::new(
        Board::from(&map),
        w_color(p.wtm),
        rights,
        p.ep.map(w_square),
        // `as _`: whatever integer type the counters have (a narrower type shows up as a
        // wrong counter in the checks, not as a build failure of the harness)
        Clock {
            halfmove_clock: p.half as _,
            fullmove_number: p.full as _,
        },
    )
}

pub fn from_state(s: &State) -> Pos {
    let mut p = Pos::empty();
    for sq in 0..64u8 {
        if let Some(pi) = s.board().piece_at(w_square(sq)) {
            p.b[sq as usize] = code(pi.color() == Color::White, o_kind(pi.piece()));
        }
    }
    p.wtm = s.turn_to_move() == Color::White;
    let w = s.castle_rights(Color::White);
    let b = s.castle_rights(Color::Black);
    p.cr = (w.kingside as u8 * WK)
        | (w.queenside as u8 * WQ)
        | (b.kingside as u8 * BK)
        | (b.queenside as u8 * BQ);
    p.ep = s.en_passant_target().map(o_square);
    p.half = s.clock().halfmove_clock as u64;
    p.full = s.clock().fullmove_number as u64;
    p
}

/// Attribute tuple of a weechess move read through its public accessors.
pub fn mv_of(m: &Move) -> Mv {
    Mv {
        from: o_square(m.origin()),
        to: o_square(m.destination()),
        piece: o_kind(m.piece()),
        white: m.color() == Color::White,
        capture: m.capture().map(o_kind).unwrap_or(0),
        promo: m.promotion().map(o_kind).unwrap_or(0),
        ep: m.is_en_passant(),
        castle: match m.castle_side() {
            Some(Side::King) => 1,
            Some(Side::Queen) => 2,
            None => 0,
        },
        double: m.is_double_pawn(),
    }
}

/// Builds the weechess move for a reference move through the matching constructor.
pub fn to_move(m: &Mv) -> Move {
    let pi = PieceIndex::new(w_color(m.white), w_piece(m.piece));
    let (from, to) = (w_square(m.from), w_square(m.to));
    if m.castle != 0 {
        Move::by_castling(
            w_color(m.white),
            if m.castle == 1 { Side::King } else { Side::Queen },
        )
    } else if m.ep {
        Move::by_en_passant(pi, from, to)
    } else if m.promo != 0 && m.capture != 0 {
        Move::by_capture_promoting(pi, from, to, w_piece(m.capture), w_piece(m.promo))
    } else if m.promo != 0 {
        Move::by_promoting(pi, from, to, w_piece(m.promo))
    } else if m.capture != 0 {
        Move::by_capturing(pi, from, to, w_piece(m.capture))
    } else {
        Move::by_moving(pi, from, to)
    }
}

pub fn bb_to_u64(b: weechess_core::BitBoard) -> u64 {
    b.into()
}
