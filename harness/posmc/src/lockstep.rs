//! C01 / C02: move generation and move application in lock-step with the reference model.

use crate::bridge::*;
use crate::explore::{bfs, run_families};
use crate::families::*;
use crate::report::{finish, Ctx, Local};
use oracle::*;
use serde_json::json;
use weechess_core::{MoveGenerator, MoveQuery, MoveResult, State};
use weechess_engine::searcher::Searcher;

fn mv_json(m: &Mv) -> serde_json::Value {
    json!({"lan": m.lan(), "piece": kind_letter(m.piece).to_string(), "white": m.white, "capture": m.capture, "promo": m.promo, "ep": m.ep, "castle": m.castle, "double": m.double})
}

const COUNTER_MENU: [(u64, u64); 4] = [(0, 1), (1, 2), (49, 37), (99, 120)];

/// One state of the lock-step exploration. Returns the successors (reference model's,
/// equal to the implementation's unless a violation was recorded).
pub fn lockstep(ctx: &Ctx, p0: &Pos, l: &mut Local, c01: bool, c02: bool) -> Vec<Pos> {
    // inject varying move counters (they are not part of the state key)
    let mut p = p0.clone();
    if c02 {
        let k = p.key();
        let (h, f) = COUNTER_MENU[(k[3] as usize ^ k[17] as usize ^ k[30] as usize) % 4];
        p.half = h;
        p.full = f;
    }
    let st = to_state(&p);
    let ms = MoveGenerator::compute_legal_moves(&st);
    let orc = p.legal();
    let imp: Vec<(Mv, &State)> = ms.moves().iter().map(|MoveResult(m, s)| (mv_of(m), s)).collect();

    l.inc("states");
    l.add("transitions", orc.len() as u64);
    if orc.is_empty() {
        l.inc("terminal_states");
    }
    if p.in_check(p.wtm) {
        l.inc("states_in_check");
    }
    for (m, _) in &orc {
        if m.castle != 0 {
            l.inc("moves_castle");
        }
        if m.ep {
            l.inc("moves_en_passant");
        }
        if m.promo != 0 {
            l.inc("moves_promotion");
        }
        if m.double {
            l.inc("moves_double_step");
        }
    }
    if p.ep.is_some() {
        l.inc("states_with_ep_target");
        if orc.len() != p.pseudo_moves().len() {
            l.inc("states_with_ep_target_and_illegal_pseudo_moves");
        }
    }
    if p.cr != 0 {
        l.inc("states_with_castling_rights");
    }

    let mut a: Vec<Mv> = imp.iter().map(|x| x.0).collect();
    a.sort();
    let mut b: Vec<Mv> = orc.iter().map(|x| x.0).collect();
    b.sort();
    if c01 {
        if a.windows(2).any(|w| w[0] == w[1]) {
            ctx.violation("duplicate-move", p.fen(), json!({"fen": p.fen(), "moves": a.iter().map(mv_json).collect::<Vec<_>>() }));
        }
        if a != b {
            let coords = |v: &Vec<Mv>| {
                let mut c: Vec<(u8, u8, u8)> = v.iter().map(|m| (m.from, m.to, m.promo)).collect();
                c.sort();
                c.dedup();
                c
            };
            let kind = if coords(&a) == coords(&b) { "move-attribute-mismatch" } else { "moveset-mismatch" };
            let missing: Vec<_> = b.iter().filter(|m| !a.contains(m)).map(mv_json).collect();
            let extra: Vec<_> = a.iter().filter(|m| !b.contains(m)).map(mv_json).collect();
            ctx.violation(kind, p.fen(), json!({"fen": p.fen(), "missing_in_impl": missing, "extra_in_impl": extra}));
        }
    }
    if c02 {
        for (m, n) in &orc {
            // pair by coordinates: a wrong attribute (C01's business) must not hide a wrong successor
            if let Some((_, s)) = imp.iter().find(|x| x.0.from == m.from && x.0.to == m.to && x.0.promo == m.promo) {
                let got = from_state(s);
                if got != *n {
                    ctx.violation(
                        "successor-mismatch",
                        format!("{} {}", p.fen(), m.lan()),
                        json!({"fen": p.fen(), "move": m.lan(), "expected": n.fen(), "actual": got.fen()}),
                    );
                }
                // applying the move value directly must agree as well
                match State::by_performing_move(&st, &to_move(m)) {
                    Ok(s2) => {
                        let got2 = from_state(&s2);
                        if got2 != *n {
                            ctx.violation(
                                "successor-mismatch-direct",
                                format!("{} {}", p.fen(), m.lan()),
                                json!({"fen": p.fen(), "move": m.lan(), "expected": n.fen(), "actual": got2.fen()}),
                            );
                        }
                    }
                    Err(e) => ctx.violation(
                        "legal-move-rejected",
                        format!("{} {}", p.fen(), m.lan()),
                        json!({"fen": p.fen(), "move": m.lan(), "error": e.to_string()}),
                    ),
                }
            } else if !c01 {
                // the move set mismatch itself belongs to C01; note it so C02 is not vacuous
                l.inc("moves_not_generated_by_impl");
            }
        }
    }
    orc.into_iter()
        .map(|(_, mut n)| {
            n.half = 0;
            n.full = 1;
            n
        })
        .collect()
}

/// All 64x64 coordinate pairs (and promotion letters for pawn moves reaching the last
/// rank) through the coordinate resolver.
pub fn resolver_check(ctx: &Ctx, p: &Pos, l: &mut Local) {
    let st = to_state(p);
    let legal = p.legal();
    let before = from_state(&st);
    for from in 0..64u8 {
        for to in 0..64u8 {
            let cands: Vec<&(Mv, Pos)> = legal.iter().filter(|(m, _)| m.from == from && m.to == to).collect();
            let mut variants: Vec<u8> = vec![0];
            let pawn_last = p.b[from as usize] == code(p.wtm, PAWN) && (rank_of(to) == if p.wtm { 7 } else { 0 });
            if pawn_last {
                variants.extend([QUEEN, ROOK, BISHOP, KNIGHT]);
            }
            for promo in variants {
                let mut q = MoveQuery::by_moving_from_to(w_square(from), w_square(to));
                if promo != 0 {
                    q.set_promotion(w_piece(promo));
                }
                let expect: Vec<&&(Mv, Pos)> = cands.iter().filter(|(m, _)| m.promo == promo).collect();
                let res = State::by_performing_moves(&st, &[q]);
                l.inc("resolver_queries");
                match (&res, expect.len()) {
                    (Ok(s), 1) => {
                        l.inc("resolver_accepted");
                        let got = from_state(s);
                        if got != expect[0].1 {
                            ctx.violation(
                                "resolver-wrong-successor",
                                format!("{} {}", p.fen(), expect[0].0.lan()),
                                json!({"fen": p.fen(), "move": expect[0].0.lan(), "expected": expect[0].1.fen(), "actual": got.fen()}),
                            );
                        }
                    }
                    (Err(_), 0) => {}
                    (Ok(s), n) => ctx.violation(
                        "resolver-accepted-non-move",
                        format!("{} {}{}", p.fen(), sq_name(from), sq_name(to)),
                        json!({"fen": p.fen(), "from": sq_name(from), "to": sq_name(to), "promo": promo, "legal_matches": n, "result": from_state(s).fen()}),
                    ),
                    (Err(e), _) => ctx.violation(
                        "resolver-rejected-legal-move",
                        format!("{} {}", p.fen(), expect[0].0.lan()),
                        json!({"fen": p.fen(), "move": expect[0].0.lan(), "error": e.to_string()}),
                    ),
                }
            }
        }
    }
    if from_state(&st) != before {
        ctx.violation("resolver-changed-input", p.fen(), json!({"fen": p.fen()}));
    }
}

fn perft_check(ctx: &Ctx, name: &str, p: &Pos, depth: usize, published: Option<&[u64]>) {
    let st = to_state(p);
    for d in 1..=depth {
        let got = Searcher::new().perft(&st, d, |_, _, _, _| {}) as u64;
        let want = p.perft(d as u32);
        ctx.add("perft_counts_compared", 1);
        if let Some(pb) = published {
            if d <= pb.len() && pb[d - 1] != want {
                panic!("reference model disagrees with published perft {} depth {}", name, d);
            }
        }
        if got != want {
            ctx.violation(
                "perft-mismatch",
                format!("{} depth {}", p.fen(), d),
                json!({"fen": p.fen(), "depth": d, "expected": want, "actual": got, "root": name}),
            );
        }
    }
}

pub fn run(ctx: &Ctx, c01: bool, c02: bool) -> i32 {
    let quick = ctx.quick();
    // reference model validation first
    let st = oracle::selftest::perft_selftest(if quick { 4 } else { 5 });
    let bad: Vec<_> = st.iter().filter(|x| !x.1).collect();
    assert!(bad.is_empty(), "reference model failed its self test: {:?}", bad);
    ctx.set_extra("oracle_validation", json!({"items": st.len(), "failed": 0, "what": "perft counts of six standard positions vs published values (and of their colour mirrors)"}));

    let mut fams: Vec<Family> = vec![f3(), fcastle(true), fep(!quick), fpromo(), fmate(), fdouble(!quick), fpin(!quick)];
    let all_pairs = || {
        let mut v = Vec::new();
        for a in [QUEEN, ROOK, BISHOP, KNIGHT, PAWN] {
            for b in [QUEEN, ROOK, BISHOP, KNIGHT, PAWN] {
                v.push((a, b));
            }
        }
        v
    };
    if quick {
        fams.push(f4(vec![(ROOK, BISHOP), (QUEEN, KNIGHT), (PAWN, PAWN), (BISHOP, ROOK), (KNIGHT, QUEEN)], vec![2], "F4(sub: 5 kind pairs, white king c1)"));
    } else {
        fams.push(f4(all_pairs(), vec![0, 2, 4, 9, 18, 27, 28, 60], "F4(all 25 kind pairs, white king on 8 squares)"));
    }
    let mut states = run_families(ctx, &fams, 1, |p, l| {
        lockstep(ctx, p, l, c01, c02);
    });

    // bounded BFS from the root corpus
    let cap = if quick { 6_000_000 } else { 150_000_000 };
    let mut transitions_bfs = 0;
    let groups: Vec<(&str, Vec<Pos>, usize)> = vec![
        ("startpos", vec![Pos::startpos()], if quick { 4 } else { 5 }),
        ("perft-roots", perft_roots().into_iter().map(|x| x.1).collect(), if quick { 2 } else { 4 }),
        ("adversarial", adversarial_roots(), if quick { 3 } else { 4 }),
        ("Fcorner", fcorner_roots(), if quick { 2 } else { 3 }),
    ];
    for (name, roots, depth) in &groups {
        let r = bfs(ctx, name, roots, *depth, cap, |p, l, _| lockstep(ctx, p, l, c01, c02));
        states += r.states;
        transitions_bfs += r.transitions;
    }
    let _ = transitions_bfs;

    if c01 {
        for (name, fen, counts) in oracle::selftest::PERFT_SUITE {
            let p = Pos::from_fen(fen).unwrap();
            perft_check(ctx, name, &p, if quick { 3 } else { 4 }, Some(counts));
        }
        for p in adversarial_roots() {
            perft_check(ctx, "adversarial", &p, if quick { 2 } else { 3 }, None);
        }
        // perft from special-rule positions as well: an error in move application (rights,
        // en-passant target) only shows in the move lists of later plies
        {
            let (stride, step) = if quick { (37, 11) } else { (5, 3) };
            let mut roots: Vec<Pos> = crate::explore::collect_families(&[fcastle(true), fep(false), fpromo()], stride).into_iter().step_by(step).collect();
            roots.extend(fcorner_roots().into_iter().step_by(if quick { 7 } else { 1 }));
            ctx.add("perft_special_rule_roots", roots.len() as u64);
            let next = std::sync::atomic::AtomicUsize::new(0);
            std::thread::scope(|s| {
                for _ in 0..crate::explore::threads() {
                    s.spawn(|| loop {
                        let i = next.fetch_add(1, std::sync::atomic::Ordering::Relaxed);
                        if i >= roots.len() {
                            break;
                        }
                        perft_check(ctx, "special-rule family", &roots[i], 3, None);
                    });
                }
            });
        }
        // the same walk through the command-line front end
        if std::path::Path::new(&crate::ucidrv::cli_path()).exists() {
            let mut roots: Vec<Pos> = perft_roots().into_iter().map(|x| x.1).collect();
            roots.extend(adversarial_roots().into_iter().take(if quick { 6 } else { 26 }));
            let next = std::sync::atomic::AtomicUsize::new(0);
            std::thread::scope(|s| {
                for _ in 0..crate::explore::threads() {
                    s.spawn(|| loop {
                        let i = next.fetch_add(1, std::sync::atomic::Ordering::Relaxed);
                        if i >= roots.len() {
                            break;
                        }
                        for d in 1..=(if quick { 3 } else { 4 }) {
                            crate::clichecks::perft_cli(ctx, &roots[i], d);
                        }
                    });
                }
            });
        } else {
            ctx.note("CLI binary not built: `weechess perft` not exercised in this run");
        }
    }
    if c02 {
        // coordinate resolver on a sub-space: adversarial roots, perft roots and a strided
        // slice of the special-rule families
        let mut sub: Vec<Pos> = adversarial_roots();
        sub.extend(perft_roots().into_iter().map(|x| x.1));
        sub.push(Pos::startpos());
        let stride = if quick { 401 } else { 53 };
        sub.extend(crate::explore::collect_families(&[fcastle(false), fep(false), fpromo()], stride).into_iter().step_by(if quick { 29 } else { 7 }));
        ctx.add("resolver_states", sub.len() as u64);
        let next = std::sync::atomic::AtomicUsize::new(0);
        std::thread::scope(|s| {
            for _ in 0..crate::explore::threads() {
                s.spawn(|| {
                    let mut l = Local::default();
                    loop {
                        let i = next.fetch_add(1, std::sync::atomic::Ordering::Relaxed);
                        if i >= sub.len() {
                            break;
                        }
                        resolver_check(ctx, &sub[i], &mut l);
                    }
                    ctx.merge(l);
                });
            }
        });
    }

    let transitions = ctx.get("transitions");
    for p in [Pos::startpos(), adversarial_roots()[0].clone()] {
        let moves: Vec<String> = p.legal().iter().map(|(m, _)| m.lan()).collect();
        ctx.sample(json!({"state": p.fen(), "model_moves": moves, "checked": "implementation move set, attributes and successors equal the model's"}));
    }
    let caps = !ctx.no_caps();
    finish(
        ctx,
        states,
        transitions,
        transitions,
        !caps,
        "every member of the complete families (F3, Fcastle, Fep, Fpromo, Fmate, Fdouble, Fpin, F4 sub-family) and every state within the depth bound of the BFS roots; a state is a distinct (placement, side, rights, ep) key; each transition is a model move validated against the implementation's move list and successor",
        &["reference model (oracle crate) validated against published perft counts", "positions built through State::new/Board::from, not through FEN"],
    )
}
