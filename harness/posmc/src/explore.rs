//! Engine A: parallel enumeration of complete families and level-synchronous,
//! de-duplicating breadth-first exploration from root sets.

use crate::families::Family;
use crate::report::{Ctx, Local};
use oracle::{Key, Pos};
use std::collections::HashSet;
use std::sync::atomic::{AtomicU64, AtomicUsize, Ordering};
use std::sync::Mutex;

pub fn threads() -> usize {
    std::env::var("VERIF_THREADS")
        .ok()
        .and_then(|s| s.parse().ok())
        .unwrap_or_else(|| std::thread::available_parallelism().map(|n| n.get()).unwrap_or(8))
}

/// Runs `f` on every member of every family. Returns the number of states visited.
/// `stride`: visit only chunks with index % stride == 0 (1 = the complete family);
/// a strided run is a complete enumeration of the selected sub-family.
pub fn run_families<F>(ctx: &Ctx, fams: &[Family], stride: usize, f: F) -> u64
where
    F: Fn(&Pos, &mut Local) + Sync,
{
    crate::search::quiet_panics();
    let work: Vec<(usize, usize)> = fams
        .iter()
        .enumerate()
        .flat_map(|(i, fam)| (0..fam.chunks).filter(|c| c % stride == 0).map(move |c| (i, c)))
        .collect();
    let next = AtomicUsize::new(0);
    let total = AtomicU64::new(0);
    let per_family: Vec<AtomicU64> = fams.iter().map(|_| AtomicU64::new(0)).collect();
    std::thread::scope(|s| {
        for _ in 0..threads() {
            s.spawn(|| {
                let mut local = Local::default();
                let mut buf: Vec<Pos> = Vec::new();
                loop {
                    let i = next.fetch_add(1, Ordering::Relaxed);
                    if i >= work.len() {
                        break;
                    }
                    let (fi, c) = work[i];
                    buf.clear();
                    (fams[fi].gen)(c, &mut buf);
                    for p in &buf {
                        // a panic of the code under test on one state is a finding about that
                        // state, not the end of the exploration
                        let r = std::panic::catch_unwind(std::panic::AssertUnwindSafe(|| f(p, &mut local)));
                        if let Err(e) = r {
                            ctx.violation("implementation-panicked", p.fen(), serde_json::json!({"fen": p.fen(), "panic": crate::search::panic_text(e)}));
                        }
                    }
                    total.fetch_add(buf.len() as u64, Ordering::Relaxed);
                    per_family[fi].fetch_add(buf.len() as u64, Ordering::Relaxed);
                }
                ctx.merge(local);
            });
        }
    });
    for (i, fam) in fams.iter().enumerate() {
        ctx.add(&format!("family_states.{}", fam.name), per_family[i].load(Ordering::Relaxed));
    }
    total.load(Ordering::Relaxed)
}

/// Materialises the members of families (for checks that need a list).
pub fn collect_families(fams: &[Family], stride: usize) -> Vec<Pos> {
    let mut out = Vec::new();
    for fam in fams {
        for c in (0..fam.chunks).filter(|c| c % stride == 0) {
            (fam.gen)(c, &mut out);
        }
    }
    out
}

pub struct BfsResult {
    pub states: u64,
    pub transitions: u64,
    pub levels: Vec<u64>,
    pub completed_depth: usize,
    pub capped: bool,
}

const SHARDS: usize = 256;

fn shard_of(k: &Key) -> usize {
    // cheap mix of a few bytes
    let mut h: u32 = 2166136261;
    for &b in k.iter() {
        h = (h ^ b as u32).wrapping_mul(16777619);
    }
    (h as usize) % SHARDS
}

/// Level-synchronous BFS. `f` checks a state and returns its successors (the
/// transition relation, already validated against the implementation by `f` when
/// the check is a lock-step one). States are de-duplicated by canonical key.
pub fn bfs<F>(ctx: &Ctx, label: &str, roots: &[Pos], depth: usize, max_states: u64, f: F) -> BfsResult
where
    F: Fn(&Pos, &mut Local, usize) -> Vec<Pos> + Sync,
{
    let seen: Vec<Mutex<HashSet<Key>>> = (0..SHARDS).map(|_| Mutex::new(HashSet::new())).collect();
    let mut frontier: Vec<Pos> = Vec::new();
    for r in roots {
        let k = r.key();
        if seen[shard_of(&k)].lock().unwrap().insert(k) {
            frontier.push(r.clone());
        }
    }
    let mut res = BfsResult {
        states: 0,
        transitions: 0,
        levels: vec![],
        completed_depth: 0,
        capped: false,
    };
    for level in 0..=depth {
        if frontier.is_empty() {
            res.completed_depth = depth;
            break;
        }
        let expand = level < depth;
        let next_idx = AtomicUsize::new(0);
        let transitions = AtomicU64::new(0);
        let next_frontier: Mutex<Vec<Pos>> = Mutex::new(Vec::new());
        const CHUNK: usize = 256;
        std::thread::scope(|s| {
            for _ in 0..threads() {
                s.spawn(|| {
                    let mut local = Local::default();
                    let mut mine: Vec<Pos> = Vec::new();
                    loop {
                        let i = next_idx.fetch_add(CHUNK, Ordering::Relaxed);
                        if i >= frontier.len() {
                            break;
                        }
                        for p in &frontier[i..(i + CHUNK).min(frontier.len())] {
                            let succ = match std::panic::catch_unwind(std::panic::AssertUnwindSafe(|| f(p, &mut local, level))) {
                                Ok(s) => s,
                                Err(e) => {
                                    ctx.violation("implementation-panicked", p.fen(), serde_json::json!({"fen": p.fen(), "panic": crate::search::panic_text(e)}));
                                    Vec::new()
                                }
                            };
                            transitions.fetch_add(succ.len() as u64, Ordering::Relaxed);
                            if expand {
                                for n in succ {
                                    let k = n.key();
                                    if seen[shard_of(&k)].lock().unwrap().insert(k) {
                                        mine.push(n);
                                    }
                                }
                            }
                        }
                    }
                    next_frontier.lock().unwrap().append(&mut mine);
                    ctx.merge(local);
                });
            }
        });
        res.states += frontier.len() as u64;
        res.transitions += transitions.load(Ordering::Relaxed);
        res.levels.push(frontier.len() as u64);
        res.completed_depth = level;
        let mut nf = next_frontier.into_inner().unwrap();
        // deterministic order irrespective of thread timing
        nf.sort_by(|a, b| a.key().cmp(&b.key()));
        frontier = nf;
        if res.states + frontier.len() as u64 > max_states && level < depth {
            ctx.cap(format!(
                "bfs {}: state cap {} reached after completing depth {} (next level {} states not explored)",
                label,
                max_states,
                level,
                frontier.len()
            ));
            res.capped = true;
            break;
        }
    }
    ctx.add(&format!("bfs.{}.states", label), res.states);
    ctx.add(&format!("bfs.{}.transitions", label), res.transitions);
    ctx.set_extra(
        &format!("bfs_levels.{}", label),
        serde_json::json!({"levels": res.levels, "completed_depth": res.completed_depth, "capped": res.capped}),
    );
    res
}
