//! Process driver for the real `weechess uci` binary (Engine D).

use std::io::{BufRead, BufReader, Write};
use std::process::{Child, ChildStdin, Command, Stdio};
use std::sync::mpsc::{channel, Receiver, RecvTimeoutError};
use std::time::{Duration, Instant};

pub fn cli_path() -> String {
    std::env::var("VERIF_CLI").unwrap_or_else(|_| "/verif/target/cli/release/weechess".into())
}

pub struct Session {
    child: Child,
    stdin: Option<ChildStdin>,
    out: Receiver<String>,
    err: Receiver<String>,
    pub transcript: Vec<String>,
}

#[derive(Debug)]
pub enum Fail {
    /// no answer within the hang timeout
    Timeout(String),
    /// the process closed its stdout (died)
    Closed(String),
}

pub const HANG: Duration = Duration::from_secs(30);

impl Session {
    pub fn spawn() -> Session {
        let mut child = Command::new(cli_path())
            .arg("uci")
            .env("WEECHESS_VERIF_TT_MB", std::env::var("VERIF_UCI_TT_MB").unwrap_or_else(|_| "16".into()))
            .env("RUST_BACKTRACE", "0")
            .stdin(Stdio::piped())
            .stdout(Stdio::piped())
            .stderr(Stdio::piped())
            .spawn()
            .expect("cannot start the weechess binary (was bin/build cli run?)");
        let stdin = child.stdin.take();
        let stdout = child.stdout.take().unwrap();
        let stderr = child.stderr.take().unwrap();
        let (otx, orx) = channel();
        std::thread::spawn(move || {
            for l in BufReader::new(stdout).lines() {
                match l {
                    Ok(l) => {
                        if otx.send(l).is_err() {
                            break;
                        }
                    }
                    Err(_) => break,
                }
            }
        });
        let (etx, erx) = channel();
        std::thread::spawn(move || {
            let mut r = BufReader::new(stderr);
            let mut buf = Vec::new();
            loop {
                buf.clear();
                match r.read_until(b'\n', &mut buf) {
                    Ok(0) | Err(_) => break,
                    Ok(_) => {
                        let s = String::from_utf8_lossy(&buf).trim_end().to_string();
                        if etx.send(s).is_err() {
                            break;
                        }
                    }
                }
            }
        });
        Session { child, stdin, out: orx, err: erx, transcript: Vec::new() }
    }

    pub fn send(&mut self, line: &str) -> bool {
        self.transcript.push(format!("> {}", line));
        match self.stdin.as_mut() {
            Some(s) => s.write_all(line.as_bytes()).and_then(|_| s.write_all(b"\n")).and_then(|_| s.flush()).is_ok(),
            None => false,
        }
    }

    /// Reads stdout lines until `pred` holds for one (that line included).
    pub fn read_until(&mut self, pred: impl Fn(&str) -> bool, timeout: Duration) -> Result<Vec<String>, (Fail, Vec<String>)> {
        let deadline = Instant::now() + timeout;
        let mut lines = Vec::new();
        loop {
            let left = deadline.saturating_duration_since(Instant::now());
            match self.out.recv_timeout(left) {
                Ok(l) => {
                    self.transcript.push(format!("< {}", l));
                    let hit = pred(&l);
                    lines.push(l);
                    if hit {
                        return Ok(lines);
                    }
                }
                Err(RecvTimeoutError::Timeout) => return Err((Fail::Timeout(format!("no matching line within {:?}", timeout)), lines)),
                Err(RecvTimeoutError::Disconnected) => return Err((Fail::Closed("stdout closed".into()), lines)),
            }
        }
    }

    /// `isready` / `readyok` barrier; returns the lines printed before `readyok`.
    pub fn barrier(&mut self, timeout: Duration) -> Result<Vec<String>, (Fail, Vec<String>)> {
        if !self.send("isready") {
            return Err((Fail::Closed("stdin closed".into()), vec![]));
        }
        let mut lines = self.read_until(|l| l == "readyok", timeout)?;
        lines.pop();
        Ok(lines)
    }

    /// Everything available on stderr until a line satisfying `pred` (included).
    pub fn read_err_until(&mut self, pred: impl Fn(&str) -> bool, timeout: Duration) -> Option<Vec<String>> {
        let deadline = Instant::now() + timeout;
        let mut lines = Vec::new();
        loop {
            let left = deadline.saturating_duration_since(Instant::now());
            match self.err.recv_timeout(left) {
                Ok(l) => {
                    let hit = pred(&l);
                    lines.push(l);
                    if hit {
                        return Some(lines);
                    }
                }
                Err(_) => return None,
            }
        }
    }

    pub fn drain_err(&mut self) -> Vec<String> {
        let mut v = Vec::new();
        while let Ok(l) = self.err.try_recv() {
            v.push(l);
        }
        v
    }

    pub fn alive(&mut self) -> bool {
        matches!(self.child.try_wait(), Ok(None))
    }

    /// Closes stdin (end of input) and waits for the exit status; returns remaining stdout
    /// lines and the status code (None = killed by signal or hang).
    pub fn finish(mut self, timeout: Duration) -> (Vec<String>, Option<i32>, Vec<String>, Vec<String>) {
        self.stdin.take();
        let deadline = Instant::now() + timeout;
        let mut rest = Vec::new();
        loop {
            let left = deadline.saturating_duration_since(Instant::now());
            match self.out.recv_timeout(left) {
                Ok(l) => {
                    self.transcript.push(format!("< {}", l));
                    rest.push(l);
                }
                Err(RecvTimeoutError::Disconnected) => break,
                Err(RecvTimeoutError::Timeout) => break,
            }
        }
        let mut code = None;
        let t0 = Instant::now();
        while t0.elapsed() < Duration::from_secs(10) {
            match self.child.try_wait() {
                Ok(Some(st)) => {
                    code = st.code();
                    break;
                }
                Ok(None) => std::thread::sleep(Duration::from_millis(5)),
                Err(_) => break,
            }
        }
        if code.is_none() {
            let _ = self.child.kill();
            let _ = self.child.wait();
        }
        let err = self.drain_err();
        (rest, code, err, self.transcript.clone())
    }
}

impl Drop for Session {
    fn drop(&mut self) {
        let _ = self.child.kill();
        let _ = self.child.wait();
    }
}
