//! The standard position space shared by the position-universal checks:
//! complete families + bounded BFS from the root corpus (reference model's
//! transition relation; C01/C02 validate that relation against the implementation).

use crate::explore::{bfs, run_families};
use crate::families::*;
use crate::report::{Ctx, Local};
use oracle::*;

pub struct SpaceCfg {
    /// stride over family chunks (1 = complete families)
    pub stride: usize,
    pub with_f4: bool,
    pub bfs_depths: [usize; 4], // startpos, perft roots, adversarial, Fcorner
    pub max_bfs_states: u64,
}

pub fn all_pairs() -> Vec<(u8, u8)> {
    let mut v = Vec::new();
    for a in [QUEEN, ROOK, BISHOP, KNIGHT, PAWN] {
        for b in [QUEEN, ROOK, BISHOP, KNIGHT, PAWN] {
            v.push((a, b));
        }
    }
    v
}

pub fn std_families(quick: bool, with_f4: bool) -> Vec<Family> {
    let mut fams: Vec<Family> = vec![f3(), fcastle(true), fep(!quick), fpromo(), fmate(), fdouble(!quick), fpin(!quick)];
    if with_f4 {
        if quick {
            fams.push(f4(
                vec![(ROOK, BISHOP), (QUEEN, KNIGHT), (PAWN, PAWN), (BISHOP, ROOK), (KNIGHT, QUEEN)],
                vec![2],
                "F4(sub: 5 kind pairs, white king c1)",
            ));
        } else {
            fams.push(f4(all_pairs(), vec![0, 2, 4, 9, 18, 27, 28, 60], "F4(all 25 kind pairs, white king on 8 squares)"));
        }
    }
    fams
}

pub fn bfs_groups(depths: [usize; 4]) -> Vec<(&'static str, Vec<Pos>, usize)> {
    vec![
        ("startpos", vec![Pos::startpos()], depths[0]),
        ("perft-roots", perft_roots().into_iter().map(|x| x.1).collect(), depths[1]),
        ("adversarial", adversarial_roots(), depths[2]),
        ("Fcorner", fcorner_roots(), depths[3]),
    ]
}

/// Runs `f` over the standard space. Returns (states, transitions).
pub fn std_space<F>(ctx: &Ctx, cfg: &SpaceCfg, f: F) -> (u64, u64)
where
    F: Fn(&Pos, &mut Local) + Sync,
{
    let fams = std_families(ctx.quick(), cfg.with_f4);
    let mut states = run_families(ctx, &fams, cfg.stride, |p, l| f(p, l));
    let mut transitions = 0;
    for (name, roots, depth) in bfs_groups(cfg.bfs_depths) {
        let r = bfs(ctx, name, &roots, depth, cfg.max_bfs_states, |p, l, _| {
            f(p, l);
            p.legal().into_iter().map(|x| x.1).collect()
        });
        states += r.states;
        transitions += r.transitions;
    }
    (states, transitions)
}
