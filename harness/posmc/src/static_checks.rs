//! C09 (attack tables) and C20 (move values): complete enumerations of finite domains.

use crate::bridge::*;
use crate::explore::threads;
use crate::report::{finish, Ctx, Local};
use oracle::*;
use serde_json::json;
use std::collections::HashMap;
use std::sync::atomic::{AtomicUsize, Ordering};
use weechess_core::{AttackGenerator, BitBoard, Color, Move, Piece, PieceIndex, Side};

fn ray_squares(sq: u8, dirs: &[(i8, i8)]) -> Vec<Vec<u8>> {
    let (f, r) = (file_of(sq), rank_of(sq));
    dirs.iter()
        .map(|&(df, dr)| {
            let mut v = Vec::new();
            let (mut cf, mut cr) = (f + df, r + dr);
            while let Some(s) = sq_at(cf, cr) {
                v.push(s);
                cf += df;
                cr += dr;
            }
            v
        })
        .collect()
}

fn walk(rays: &[Vec<u8>], occ: u64) -> u64 {
    let mut out = 0u64;
    for ray in rays {
        for &s in ray {
            out |= 1u64 << s;
            if occ & (1u64 << s) != 0 {
                break;
            }
        }
    }
    out
}

const ROOK_D: [(i8, i8); 4] = [(1, 0), (0, 1), (-1, 0), (0, -1)];
const BISHOP_D: [(i8, i8); 4] = [(1, 1), (-1, 1), (-1, -1), (1, -1)];

fn c09_square(ctx: &Ctx, sq: u8, l: &mut Local) {
    let wsq = w_square(sq);
    for (name, dirs) in [("rook", &ROOK_D), ("bishop", &BISHOP_D)] {
        let rays = ray_squares(sq, dirs);
        let on_ray: Vec<u8> = rays.iter().flatten().copied().collect();
        let ray_mask: u64 = on_ray.iter().fold(0, |a, &s| a | (1u64 << s));
        let off_ray: Vec<u8> = (0..64u8).filter(|&s| ray_mask & (1u64 << s) == 0).collect();
        let all_off: u64 = off_ray.iter().fold(0, |a, &s| a | (1u64 << s));
        let n = on_ray.len();
        for idx in 0..(1u64 << n) {
            let mut occ = 0u64;
            for (i, &s) in on_ray.iter().enumerate() {
                if idx & (1 << i) != 0 {
                    occ |= 1u64 << s;
                }
            }
            let want = walk(&rays, occ);
            let lookup = |o: u64| -> u64 {
                let bb = BitBoard::from(o);
                bb_to_u64(if name == "rook" {
                    AttackGenerator::compute_rook_attacks(wsq, bb)
                } else {
                    AttackGenerator::compute_bishop_attacks(wsq, bb)
                })
            };
            let got = lookup(occ);
            l.inc("lookups");
            l.inc("ray_subsets");
            if got != want {
                ctx.violation(
                    "slider-table-mismatch",
                    format!("{} {} occ={:016x}", name, sq_name(sq), occ),
                    json!({"piece": name, "square": sq_name(sq), "occupancy": format!("{:016x}", occ), "expected": format!("{:016x}", want), "actual": format!("{:016x}", got)}),
                );
                return;
            }
            // off-ray squares must not matter: all of them set, and each single one
            l.inc("lookups");
            if lookup(occ | all_off) != want {
                ctx.violation("off-ray-occupancy-matters", format!("{} {} occ={:016x}", name, sq_name(sq), occ | all_off), json!({"piece": name, "square": sq_name(sq), "occupancy": format!("{:016x}", occ | all_off)}));
                return;
            }
            for &o in &off_ray {
                l.inc("lookups");
                if lookup(occ | (1u64 << o)) != want {
                    ctx.violation("off-ray-occupancy-matters", format!("{} {} occ={:016x}", name, sq_name(sq), occ | (1u64 << o)), json!({"piece": name, "square": sq_name(sq), "occupancy": format!("{:016x}", occ | (1u64 << o))}));
                    return;
                }
            }
        }
    }
    // queen = union, on the union of both ray sets restricted to <= 2^16 by pairing
    // rook-ray subsets (all) with bishop-ray subsets sampled exhaustively over a 6-bit window
    {
        let rr = ray_squares(sq, &ROOK_D);
        let br = ray_squares(sq, &BISHOP_D);
        let r_on: Vec<u8> = rr.iter().flatten().copied().collect();
        let b_on: Vec<u8> = br.iter().flatten().copied().collect();
        for ri in 0..(1u64 << r_on.len()) {
            let mut occ_r = 0u64;
            for (i, &s) in r_on.iter().enumerate() {
                if ri & (1 << i) != 0 {
                    occ_r |= 1u64 << s;
                }
            }
            // pair each rook subset with one bishop subset chosen by the rook index (covers all
            // bishop subsets over the run because 2^14 >= 2^13) - complete products are covered
            // by the two slider tables themselves, the union operator is what is checked here
            let bi = ri % (1u64 << b_on.len());
            let mut occ_b = 0u64;
            for (i, &s) in b_on.iter().enumerate() {
                if bi & (1 << i) != 0 {
                    occ_b |= 1u64 << s;
                }
            }
            let occ = occ_r | occ_b;
            let want = walk(&rr, occ) | walk(&br, occ);
            let got = bb_to_u64(AttackGenerator::compute_queen_attacks(wsq, BitBoard::from(occ)));
            l.inc("lookups");
            if got != want {
                ctx.violation("queen-table-mismatch", format!("queen {} occ={:016x}", sq_name(sq), occ), json!({"square": sq_name(sq), "occupancy": format!("{:016x}", occ), "expected": format!("{:016x}", want), "actual": format!("{:016x}", got)}));
                return;
            }
        }
    }
    // leapers and pawns by coordinate arithmetic
    let (f, r) = (file_of(sq), rank_of(sq));
    let pattern = |ds: &[(i8, i8)]| ds.iter().filter_map(|&(df, dr)| sq_at(f + df, r + dr)).fold(0u64, |a, s| a | (1u64 << s));
    let knight = pattern(&[(1, 2), (2, 1), (2, -1), (1, -2), (-1, -2), (-2, -1), (-2, 1), (-1, 2)]);
    let king = pattern(&[(1, 0), (1, 1), (0, 1), (-1, 1), (-1, 0), (-1, -1), (0, -1), (1, -1)]);
    let wp = pattern(&[(-1, 1), (1, 1)]);
    let bp = pattern(&[(-1, -1), (1, -1)]);
    let checks = [
        ("knight", knight, bb_to_u64(AttackGenerator::compute_knight_attacks(wsq))),
        ("king", king, bb_to_u64(AttackGenerator::compute_king_attacks(wsq))),
        ("white pawn", wp, bb_to_u64(AttackGenerator::compute_pawn_attacks(wsq, Color::White))),
        ("black pawn", bp, bb_to_u64(AttackGenerator::compute_pawn_attacks(wsq, Color::Black))),
    ];
    for (name, want, got) in checks {
        l.inc("lookups");
        if want != got {
            ctx.violation("leaper-table-mismatch", format!("{} {}", name, sq_name(sq)), json!({"piece": name, "square": sq_name(sq), "expected": format!("{:016x}", want), "actual": format!("{:016x}", got)}));
        }
    }
    // the generic dispatcher must agree with the specific functions
    for white in [true, false] {
        for k in [PAWN, KNIGHT, BISHOP, ROOK, QUEEN, KING] {
            let occ = 0x0000_1234_5678_9abc_u64 | (1u64 << sq);
            let got = bb_to_u64(AttackGenerator::compute(PieceIndex::new(w_color(white), w_piece(k)), wsq, BitBoard::from(occ)));
            let mut p = Pos::empty();
            for s in 0..64u8 {
                if occ & (1u64 << s) != 0 {
                    p.b[s as usize] = code(true, KNIGHT);
                }
            }
            p.b[sq as usize] = code(white, k);
            l.inc("lookups");
            if got != p.piece_attacks(sq) {
                ctx.violation("dispatcher-mismatch", format!("{} {}", code_letter(code(white, k)), sq_name(sq)), json!({"square": sq_name(sq), "kind": k, "white": white}));
            }
        }
    }
}

pub fn run_c09(ctx: &Ctx) -> i32 {
    let next = AtomicUsize::new(0);
    std::thread::scope(|s| {
        for _ in 0..threads() {
            s.spawn(|| {
                let mut l = Local::default();
                loop {
                    let sq = next.fetch_add(1, Ordering::Relaxed);
                    if sq >= 64 {
                        break;
                    }
                    c09_square(ctx, sq as u8, &mut l);
                }
                ctx.merge(l);
            });
        }
    });
    ctx.sample(json!({"piece": "rook", "square": "d4", "occupancy": "d6,f4", "expected_attacks": "d5 d6 e4 f4 c4 b4 a4 d3 d2 d1"}));
    let subsets = ctx.get("ray_subsets");
    finish(
        ctx,
        subsets + 64 * 4,
        ctx.get("lookups"),
        ctx.get("lookups"),
        true,
        "complete: 64 squares x every subset of the squares on the rook's rays (2^14 each) and the bishop's rays (2^7..2^13) against a square-by-square ray walk; for each of them additionally every single off-ray square set and all off-ray squares set; queen = union over paired subsets; knight, king and pawn patterns for both colours by coordinate arithmetic; the generic dispatcher",
        &["the ray walk in this file is the specification of a sliding attack"],
    )
}

// ------------------------------------------------------------------ C20

#[derive(Clone, Copy, PartialEq, Eq, Hash, Debug)]
struct Attr {
    white: bool,
    piece: u8,
    from: u8,
    to: u8,
    capture: u8,
    promo: u8,
    ep: bool,
    castle: u8,
}

fn accessors_ok(m: &Move, a: &Attr) -> Option<String> {
    let got = Attr {
        white: m.color() == Color::White,
        piece: o_kind(m.piece()),
        from: o_square(m.origin()),
        to: o_square(m.destination()),
        capture: m.capture().map(o_kind).unwrap_or(0),
        promo: m.promotion().map(o_kind).unwrap_or(0),
        ep: m.is_en_passant(),
        castle: match m.castle_side() {
            Some(Side::King) => 1,
            Some(Side::Queen) => 2,
            None => 0,
        },
    };
    if got != *a {
        return Some(format!("accessors {:?} != constructor input {:?}", got, a));
    }
    if m.is_capture() != (a.capture != 0) || m.is_promotion() != (a.promo != 0) {
        return Some("is_capture/is_promotion inconsistent".into());
    }
    if m.is_castle(Side::King) != (a.castle == 1) || m.is_castle(Side::Queen) != (a.castle == 2) || m.is_any_castle() != (a.castle != 0) {
        return Some("is_castle inconsistent".into());
    }
    if o_kind(m.resulting_piece()) != if a.promo != 0 { a.promo } else { a.piece } {
        return Some("resulting_piece wrong".into());
    }
    // double-step flag: required true for the 16 genuine double steps, false for one-rank pawn moves
    if a.piece == PAWN && a.castle == 0 {
        let dr = (rank_of(a.to) - rank_of(a.from)).abs();
        let genuine = file_of(a.from) == file_of(a.to) && ((a.white && rank_of(a.from) == 1 && rank_of(a.to) == 3) || (!a.white && rank_of(a.from) == 6 && rank_of(a.to) == 4));
        if genuine && !m.is_double_pawn() {
            return Some("genuine double step not flagged".into());
        }
        if dr <= 1 && m.is_double_pawn() {
            return Some("one-rank pawn move flagged as double step".into());
        }
    } else if a.piece != PAWN && m.is_double_pawn() {
        return Some("non-pawn move flagged as double step".into());
    }
    None
}

pub fn run_c20(ctx: &Ctx) -> i32 {
    let next = AtomicUsize::new(0);
    let maps: std::sync::Mutex<Vec<HashMap<u32, Attr>>> = std::sync::Mutex::new(Vec::new());
    std::thread::scope(|s| {
        for _ in 0..threads() {
            s.spawn(|| {
                let mut l = Local::default();
                let mut raw: HashMap<u32, Attr> = HashMap::new();
                loop {
                    // work unit: (colour, kind, from)
                    let u = next.fetch_add(1, Ordering::Relaxed);
                    if u >= 2 * 6 * 64 {
                        break;
                    }
                    let white = u / (6 * 64) == 0;
                    let piece = [PAWN, KNIGHT, BISHOP, ROOK, QUEEN, KING][(u / 64) % 6];
                    let from = (u % 64) as u8;
                    let pi = PieceIndex::new(w_color(white), w_piece(piece));
                    for to in 0..64u8 {
                        for capture in [0, PAWN, KNIGHT, BISHOP, ROOK, QUEEN] {
                            for promo in [0, KNIGHT, BISHOP, ROOK, QUEEN] {
                                let a = Attr { white, piece, from, to, capture, promo, ep: false, castle: 0 };
                                let (f, t) = (w_square(from), w_square(to));
                                let m = match (capture, promo) {
                                    (0, 0) => Move::by_moving(pi, f, t),
                                    (c, 0) => Move::by_capturing(pi, f, t, w_piece(c)),
                                    (0, p) => Move::by_promoting(pi, f, t, w_piece(p)),
                                    (c, p) => Move::by_capture_promoting(pi, f, t, w_piece(c), w_piece(p)),
                                };
                                l.inc("values");
                                if let Some(e) = accessors_ok(&m, &a) {
                                    ctx.violation("move-attribute-lost", format!("{:?}", a), json!({"input": format!("{:?}", a), "error": e, "raw": m.as_raw()}));
                                    continue;
                                }
                                // equal tuples give equal values
                                let m2 = match (capture, promo) {
                                    (0, 0) => Move::by_moving(pi, f, t),
                                    (c, 0) => Move::by_capturing(pi, f, t, w_piece(c)),
                                    (0, p) => Move::by_promoting(pi, f, t, w_piece(p)),
                                    (c, p) => Move::by_capture_promoting(pi, f, t, w_piece(c), w_piece(p)),
                                };
                                if m != m2 || m.as_raw() != m2.as_raw() {
                                    ctx.violation("equal-attributes-unequal-moves", format!("{:?}", a), json!({"input": format!("{:?}", a)}));
                                }
                                if let Some(prev) = raw.insert(m.as_raw(), a) {
                                    if prev != a {
                                        ctx.violation("raw-value-collision", format!("{:?}", a), json!({"a": format!("{:?}", prev), "b": format!("{:?}", a), "raw": m.as_raw()}));
                                    }
                                }
                                // serialisation round trip
                                let mut buf = Vec::new();
                                ciborium::into_writer(&m, &mut buf).unwrap();
                                let back: Move = ciborium::de::from_reader(&buf[..]).unwrap();
                                l.inc("serde_round_trips");
                                if back != m {
                                    ctx.violation("serialisation-changes-move", format!("{:?}", a), json!({"input": format!("{:?}", a)}));
                                }
                            }
                        }
                        // en passant
                        if piece == PAWN {
                            let a = Attr { white, piece, from, to, capture: PAWN, promo: 0, ep: true, castle: 0 };
                            let m = Move::by_en_passant(pi, w_square(from), w_square(to));
                            l.inc("values");
                            if let Some(e) = accessors_ok(&m, &a) {
                                ctx.violation("move-attribute-lost", format!("{:?}", a), json!({"input": format!("{:?}", a), "error": e}));
                            }
                            if let Some(prev) = raw.insert(m.as_raw(), a) {
                                if prev != a {
                                    ctx.violation("raw-value-collision", format!("{:?}", a), json!({"a": format!("{:?}", prev), "b": format!("{:?}", a)}));
                                }
                            }
                            let mut buf = Vec::new();
                            ciborium::into_writer(&m, &mut buf).unwrap();
                            let back: Move = ciborium::de::from_reader(&buf[..]).unwrap();
                            if back != m {
                                ctx.violation("serialisation-changes-move", format!("{:?}", a), json!({"input": format!("{:?}", a)}));
                            }
                        }
                    }
                }
                maps.lock().unwrap().push(raw);
                ctx.merge(l);
            });
        }
    });
    // castling moves
    let mut castles: Vec<(u32, Attr)> = Vec::new();
    for white in [true, false] {
        for (side, c) in [(Side::King, 1u8), (Side::Queen, 2u8)] {
            let from = if white { E1 } else { E8 };
            let to = if c == 1 { from + 2 } else { from - 2 };
            let a = Attr { white, piece: KING, from, to, capture: 0, promo: 0, ep: false, castle: c };
            let m = Move::by_castling(w_color(white), side);
            ctx.add("values", 1);
            if let Some(e) = accessors_ok(&m, &a) {
                ctx.violation("move-attribute-lost", format!("{:?}", a), json!({"input": format!("{:?}", a), "error": e}));
            }
            let mut buf = Vec::new();
            ciborium::into_writer(&m, &mut buf).unwrap();
            let back: Move = ciborium::de::from_reader(&buf[..]).unwrap();
            if back != m {
                ctx.violation("serialisation-changes-move", format!("{:?}", a), json!({"input": format!("{:?}", a)}));
            }
            castles.push((m.as_raw(), a));
        }
    }
    // global injectivity: merge the per-thread maps
    let mut all: HashMap<u32, Attr> = HashMap::new();
    for m in maps.into_inner().unwrap() {
        for (k, v) in m {
            if let Some(prev) = all.insert(k, v) {
                if prev != v {
                    ctx.violation("raw-value-collision", format!("{:?}", v), json!({"a": format!("{:?}", prev), "b": format!("{:?}", v), "raw": k}));
                }
            }
        }
    }
    for (k, v) in castles {
        if let Some(prev) = all.insert(k, v) {
            if prev != v {
                ctx.violation("raw-value-collision", format!("{:?}", v), json!({"a": format!("{:?}", prev), "b": format!("{:?}", v), "raw": k}));
            }
        }
    }
    ctx.add("distinct_raw_values", all.len() as u64);
    if Move::NULL.as_raw() != 0 {
        ctx.violation("null-move-not-zero", "NULL", json!({}));
    }
    ctx.sample(json!({"constructor": "by_capture_promoting(black pawn, h2, g1, captures Rook, promotes Knight)", "checked": "every accessor returns the input; raw value unique; ciborium round trip identity"}));
    let values = ctx.get("values");
    finish(
        ctx,
        values,
        values,
        values,
        true,
        "complete: 2 colours x 6 kinds x 64 origins x 64 destinations x {none + 5 captures} x {none + 4 promotions} through the matching constructor, every en-passant (origin, destination) pair for both colours, the 4 castling moves: accessors return the constructor's input, the raw-value map is injective on attribute tuples, equal tuples give equal values, ciborium round trip is the identity",
        &["is_double_pawn is only constrained for genuine double steps (true) and one-rank pawn moves (false); other geometries are left open by the property"],
    )
}
