//! Checks through the real command-line binary: `weechess perft` (C01) and
//! `weechess evaluate --seed` (C19).

use crate::report::Ctx;
use crate::ucidrv::cli_path;
use oracle::*;
use serde_json::json;
use std::collections::BTreeMap;
use std::process::Command;

/// `weechess perft --fen F --depth d`: total and per-first-move counts vs. the model.
pub fn perft_cli(ctx: &Ctx, p: &Pos, depth: u32) {
    let out = Command::new(cli_path()).args(["perft", "--fen", &p.fen(), "--depth", &depth.to_string()]).output();
    let out = match out {
        Ok(o) => o,
        Err(e) => panic!("cannot run the CLI binary: {}", e),
    };
    ctx.add("cli_perft_runs", 1);
    let text = String::from_utf8_lossy(&out.stdout).to_string();
    if !out.status.success() {
        ctx.violation("cli-perft-failed", format!("{} depth {}", p.fen(), depth), json!({"fen": p.fen(), "depth": depth, "status": format!("{:?}", out.status), "stderr": String::from_utf8_lossy(&out.stderr).lines().rev().take(3).collect::<Vec<_>>()}));
        return;
    }
    let mut total: Option<u64> = None;
    let mut per_move: BTreeMap<String, u64> = BTreeMap::new();
    for line in text.lines() {
        if let Some(rest) = line.strip_prefix("Total nodes: ") {
            total = rest.split(' ').next().and_then(|x| x.parse().ok());
        } else if let (Some(a), Some(b)) = (line.find('['), line.rfind(']')) {
            // "<move>: <count> [<successor fen>]"
            let count = line[..a].rsplit(':').next().and_then(|x| x.trim().parse::<u64>().ok());
            if let Some(c) = count {
                per_move.insert(line[a + 1..b].to_string(), c);
            }
        }
    }
    let want_total = p.perft(depth);
    if total != Some(want_total) {
        ctx.violation("cli-perft-total-mismatch", format!("{} depth {}", p.fen(), depth), json!({"fen": p.fen(), "depth": depth, "expected": want_total, "actual": total}));
        return;
    }
    if depth >= 2 {
        let want: BTreeMap<String, u64> = p.legal().into_iter().map(|(_, n)| (n.fen(), n.perft(depth - 1))).collect();
        if want != per_move {
            let diff: Vec<String> = want.iter().filter(|(k, v)| per_move.get(*k) != Some(v)).map(|(k, v)| format!("{} expected {} got {:?}", k, v, per_move.get(k))).take(5).collect();
            ctx.violation("cli-perft-divide-mismatch", format!("{} depth {}", p.fen(), depth), json!({"fen": p.fen(), "depth": depth, "differences": diff, "extra_lines": per_move.keys().filter(|k| !want.contains_key(*k)).take(5).collect::<Vec<_>>()}));
        }
    }
}

fn strip_timing(text: &str) -> Vec<String> {
    // keep depth / nodes of progress lines and the whole best-move lines; drop time and nps
    text.lines()
        .map(|l| {
            // remove ANSI colour codes
            let mut s = String::new();
            let mut esc = false;
            for c in l.chars() {
                if esc {
                    if c == 'm' {
                        esc = false;
                    }
                } else if c == '\u{1b}' {
                    esc = true;
                } else {
                    s.push(c);
                }
            }
            s.split_whitespace().filter(|t| !t.starts_with("time=") && !t.starts_with("nps=")).collect::<Vec<_>>().join(" ")
        })
        .collect()
}

/// `weechess evaluate --fen F --max-depth d --seed s` run twice in separate processes.
pub fn evaluate_cli_twice(ctx: &Ctx, p: &Pos, depth: usize, seed: u64) {
    let run = || {
        Command::new(cli_path())
            .args(["evaluate", "--fen", &p.fen(), "--max-depth", &depth.to_string(), "--seed", &seed.to_string()])
            .env("WEECHESS_VERIF_TT_MB", "4")
            .env("NO_COLOR", "1")
            .output()
            .unwrap_or_else(|e| panic!("cannot run the CLI binary: {}", e))
    };
    let a = run();
    let b = run();
    ctx.add("cli_evaluate_runs", 2);
    if !a.status.success() || !b.status.success() {
        ctx.violation("cli-evaluate-failed", p.fen(), json!({"fen": p.fen(), "depth": depth, "seed": seed, "status": [format!("{:?}", a.status), format!("{:?}", b.status)]}));
        return;
    }
    let (ta, tb) = (strip_timing(&String::from_utf8_lossy(&a.stdout)), strip_timing(&String::from_utf8_lossy(&b.stdout)));
    if ta != tb {
        ctx.violation("cli-evaluate-runs-differ", format!("{} seed {} depth {}", p.fen(), seed, depth), json!({"fen": p.fen(), "depth": depth, "seed": seed, "first": ta, "second": tb}));
    } else if !ta.iter().any(|l| l.contains("Best Move")) && p.has_legal_move() {
        ctx.violation("cli-evaluate-no-output", p.fen(), json!({"fen": p.fen(), "output": ta}));
    }
}
