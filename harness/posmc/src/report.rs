//! Run context: counters, violations, known-findings matching, evidence and replay files.

use serde_json::{json, Map, Value};
use std::collections::BTreeMap;
use std::sync::atomic::{AtomicU64, Ordering};
use std::sync::Mutex;
use std::time::Instant;

pub const VERIF_ROOT: &str = "/verif";

#[derive(Clone, Debug)]
pub struct Violation {
    /// short machine-readable class of the failure, e.g. "moveset-mismatch"
    pub kind: String,
    /// the position (FEN) or other primary input the failure is identified by
    pub input: String,
    /// everything needed to replay and to understand it
    pub detail: Value,
}

#[derive(Default)]
pub struct Local {
    pub counters: BTreeMap<&'static str, u64>,
}

impl Local {
    #[inline]
    pub fn add(&mut self, k: &'static str, n: u64) {
        *self.counters.entry(k).or_insert(0) += n;
    }
    #[inline]
    pub fn inc(&mut self, k: &'static str) {
        self.add(k, 1)
    }
}

pub struct Ctx {
    pub prop: String,
    pub tier: String,
    pub seed: u64,
    pub start: Instant,
    pub counters: Mutex<BTreeMap<String, u64>>,
    pub violations: Mutex<Vec<Violation>>,
    pub violation_total: AtomicU64,
    pub samples: Mutex<Vec<Value>>,
    pub notes: Mutex<Vec<String>>,
    pub extra: Mutex<Map<String, Value>>,
    pub caps_hit: Mutex<Vec<String>>,
}

pub const MAX_STORED_PER_KIND: usize = 40;

impl Ctx {
    pub fn new(prop: &str, tier: &str, seed: u64) -> Ctx {
        Ctx {
            prop: prop.to_string(),
            tier: tier.to_string(),
            seed,
            start: Instant::now(),
            counters: Mutex::new(BTreeMap::new()),
            violations: Mutex::new(Vec::new()),
            violation_total: AtomicU64::new(0),
            samples: Mutex::new(Vec::new()),
            notes: Mutex::new(Vec::new()),
            extra: Mutex::new(Map::new()),
            caps_hit: Mutex::new(Vec::new()),
        }
    }

    pub fn quick(&self) -> bool {
        self.tier == "quick"
    }

    pub fn merge(&self, l: Local) {
        let mut c = self.counters.lock().unwrap();
        for (k, v) in l.counters {
            *c.entry(k.to_string()).or_insert(0) += v;
        }
    }

    pub fn add(&self, k: &str, n: u64) {
        *self.counters.lock().unwrap().entry(k.to_string()).or_insert(0) += n;
    }

    pub fn get(&self, k: &str) -> u64 {
        self.counters.lock().unwrap().get(k).copied().unwrap_or(0)
    }

    pub fn set_extra(&self, k: &str, v: Value) {
        self.extra.lock().unwrap().insert(k.to_string(), v);
    }

    pub fn note(&self, s: impl Into<String>) {
        self.notes.lock().unwrap().push(s.into());
    }

    pub fn no_caps(&self) -> bool {
        let v = self.caps_hit.lock().unwrap().is_empty();
        v
    }

    pub fn cap(&self, s: impl Into<String>) {
        self.caps_hit.lock().unwrap().push(s.into());
    }

    pub fn sample(&self, v: Value) {
        let mut s = self.samples.lock().unwrap();
        if s.len() < 24 {
            s.push(v);
        }
    }

    pub fn sample_count(&self) -> usize {
        self.samples.lock().unwrap().len()
    }

    pub fn violation(&self, kind: &str, input: impl Into<String>, detail: Value) {
        self.violation_total.fetch_add(1, Ordering::SeqCst);
        self.add(&format!("violations.{}", kind), 1);
        let mut v = self.violations.lock().unwrap();
        let same = v.iter().filter(|x| x.kind == kind).count();
        if same < MAX_STORED_PER_KIND {
            v.push(Violation {
                kind: kind.to_string(),
                input: input.into(),
                detail,
            });
        }
    }

    pub fn elapsed(&self) -> f64 {
        self.start.elapsed().as_secs_f64()
    }
}

#[derive(Debug)]
struct Known {
    id: String,
    property: String,
    kind: Option<String>,
    input: Option<String>,
    what: String,
}

fn load_known() -> Vec<Known> {
    let path = format!("{}/known_findings.json", VERIF_ROOT);
    let Ok(text) = std::fs::read_to_string(&path) else {
        return vec![];
    };
    let v: Value = serde_json::from_str(&text).expect("known_findings.json is not valid JSON");
    let mut out = Vec::new();
    for f in v["findings"].as_array().cloned().unwrap_or_default() {
        if f["status"].as_str() != Some("known") {
            continue; // "fixed" entries suppress nothing
        }
        out.push(Known {
            id: f["id"].as_str().unwrap_or("").to_string(),
            property: f["property"].as_str().unwrap_or("").to_string(),
            kind: f["match"]["kind"].as_str().map(|s| s.to_string()),
            input: f["match"]["input"].as_str().map(|s| s.to_string()),
            what: f["what"].as_str().unwrap_or("").to_string(),
        });
    }
    out
}

/// Writes the evidence file, prints KNOWN-FINDING / VIOLATION lines, returns the exit code.
pub fn finish(ctx: &Ctx, states: u64, transitions: u64, traces_validated: u64, exhaustive: bool, rule: &str, assumptions: &[&str]) -> i32 {
    let known = load_known();
    let violations = ctx.violations.lock().unwrap().clone();
    let total = ctx.violation_total.load(Ordering::SeqCst);
    let mut unlisted: Vec<&Violation> = Vec::new();
    let mut matched: BTreeMap<String, (String, u64)> = BTreeMap::new();
    for v in &violations {
        let k = known.iter().find(|k| {
            k.property == ctx.prop
                && k.kind.as_ref().map(|x| *x == v.kind).unwrap_or(true)
                && k.input.as_ref().map(|x| *x == v.input).unwrap_or(true)
                && (k.kind.is_some() || k.input.is_some())
        });
        match k {
            Some(k) => {
                matched.entry(k.id.clone()).or_insert((k.what.clone(), 0)).1 += 1;
            }
            None => unlisted.push(v),
        }
    }
    for (id, (what, n)) in &matched {
        println!("KNOWN-FINDING: property={} {} [{} x{}]", ctx.prop, what, id, n);
    }
    // stored violations are capped per kind; if more occurred than were stored and
    // everything stored was a known finding we can not tell whether the rest is
    // known too -> the engines keep the cap high enough, and we say so here
    let stored = violations.len() as u64;
    let unlisted_count = unlisted.len() as u64 + if matched.is_empty() { total - stored } else { 0 };

    let mut replay_paths = Vec::new();
    if !unlisted.is_empty() {
        let dir = format!("{}/replays", VERIF_ROOT);
        let _ = std::fs::create_dir_all(&dir);
        // a few replay files per distinct kind, so that no kind hides behind another
        let mut per_kind: BTreeMap<String, usize> = BTreeMap::new();
        let chosen: Vec<&&Violation> = unlisted
            .iter()
            .filter(|v| {
                let c = per_kind.entry(v.kind.clone()).or_insert(0);
                *c += 1;
                *c <= 3
            })
            .take(30)
            .collect();
        for (i, v) in chosen.iter().enumerate() {
            let path = format!("{}/{}-{}.json", dir, ctx.prop, i);
            let body = json!({
                "property": ctx.prop,
                "kind": v.kind,
                "input": v.input,
                "detail": v.detail,
                "tier": ctx.tier,
                "seed": ctx.seed,
            });
            std::fs::write(&path, serde_json::to_string_pretty(&body).unwrap()).expect("cannot write replay file");
            replay_paths.push(path);
        }
    }

    let counters = ctx.counters.lock().unwrap().clone();
    let samples = ctx.samples.lock().unwrap().clone();
    let mut coverage = Map::new();
    coverage.insert("states".into(), json!(states.max(0)));
    coverage.insert("transitions".into(), json!(transitions));
    coverage.insert("traces_validated_against_impl".into(), json!(traces_validated));
    coverage.insert("exhaustive".into(), json!(exhaustive));
    coverage.insert("rule".into(), json!(rule));
    coverage.insert(
        "samples".into(),
        if samples.is_empty() {
            json!(["(no sample recorded)"])
        } else {
            Value::Array(samples)
        },
    );
    coverage.insert("counters".into(), json!(counters));
    coverage.insert("caps_hit".into(), json!(*ctx.caps_hit.lock().unwrap()));
    coverage.insert("notes".into(), json!(*ctx.notes.lock().unwrap()));
    coverage.insert("known_findings_matched".into(), json!(matched.iter().map(|(k, v)| json!({"id": k, "what": v.0, "occurrences": v.1})).collect::<Vec<_>>()));
    for (k, v) in ctx.extra.lock().unwrap().iter() {
        coverage.insert(k.clone(), v.clone());
    }
    let evidence = json!({
        "property_id": ctx.prop,
        "tier": ctx.tier,
        "seed": ctx.seed,
        "level": "model_checking",
        "coverage": coverage,
        "assumptions": assumptions,
        "wall_s": ctx.elapsed(),
        "violations": total,
        "unlisted_violations": unlisted_count,
    });
    let dir = format!("{}/evidence", VERIF_ROOT);
    let _ = std::fs::create_dir_all(&dir);
    std::fs::write(
        format!("{}/{}.json", dir, ctx.prop),
        serde_json::to_string_pretty(&evidence).unwrap(),
    )
    .expect("cannot write evidence file");

    println!(
        "{} tier={} states={} transitions={} validated={} exhaustive={} violations={} wall={:.1}s",
        ctx.prop,
        ctx.tier,
        states,
        transitions,
        traces_validated,
        exhaustive,
        total,
        ctx.elapsed()
    );
    if unlisted_count > 0 {
        for v in unlisted.iter().take(10) {
            println!("  violation kind={} input={} detail={}", v.kind, v.input, v.detail);
        }
        let p = replay_paths.first().cloned().unwrap_or_else(|| "-".into());
        println!("VIOLATION property={} replay={}", ctx.prop, p);
        1
    } else {
        0
    }
}
