#![feature(generic_const_exprs)]
#![allow(incomplete_features)]

mod bridge;
mod explore;
mod families;
mod lockstep;
mod report;

use report::Ctx;

fn usage() -> ! {
    eprintln!("usage: posmc check <ID> [--tier quick|thorough] [--replay FILE]");
    std::process::exit(2);
}

fn main() {
    let args: Vec<String> = std::env::args().collect();
    if args.len() < 3 || args[1] != "check" {
        usage();
    }
    let id = args[2].clone();
    let mut tier = std::env::var("VERIF_TIER").unwrap_or_else(|_| "quick".into());
    let mut replay: Option<String> = None;
    let mut i = 3;
    while i < args.len() {
        match args[i].as_str() {
            "--tier" => {
                tier = args[i + 1].clone();
                i += 2;
            }
            "--replay" => {
                replay = Some(args[i + 1].clone());
                i += 2;
            }
            _ => usage(),
        }
    }
    if tier != "quick" && tier != "thorough" {
        usage();
    }
    let seed: u64 = std::env::var("VERIF_SEED").ok().and_then(|s| s.parse().ok()).unwrap_or(0);
    let ctx = Ctx::new(&id, &tier, seed);
    let _ = replay;
    let code = match id.as_str() {
        "C01" => lockstep::run(&ctx, true, false),
        "C02" => lockstep::run(&ctx, false, true),
        _ => {
            eprintln!("unknown property {}", id);
            2
        }
    };
    std::process::exit(code);
}
