#![feature(generic_const_exprs)]
#![allow(incomplete_features)]

mod bridge;
mod c15;
mod c16;
mod clichecks;
mod explore;
mod families;
mod lockstep;
mod loomrun;
mod poschecks;
mod replay;
mod report;
mod search;
mod space;
mod static_checks;
mod ucichecks;
mod ucidrv;

use report::Ctx;

fn usage() -> ! {
    eprintln!("usage: posmc check <ID> [--tier quick|thorough] [--replay FILE]");
    std::process::exit(2);
}

fn main() {
    let args: Vec<String> = std::env::args().collect();
    if args.len() == 4 && args[1] == "c19-child" {
        search::c19_child(&args[2], &args[3]);
        return;
    }
    if args.len() == 3 && args[1] == "parsechk" {
        ucichecks::parsechk(args[2] == "quick");
        return;
    }
    if args.len() < 3 || args[1] != "check" {
        usage();
    }
    let id = args[2].clone();
    let mut tier = std::env::var("VERIF_TIER").unwrap_or_else(|_| "quick".into());
    let mut replay: Option<String> = None;
    let mut i = 3;
    while i < args.len() {
        match args[i].as_str() {
            "--tier" => {
                tier = args[i + 1].clone();
                i += 2;
            }
            "--replay" => {
                replay = Some(args[i + 1].clone());
                i += 2;
            }
            _ => usage(),
        }
    }
    if tier != "quick" && tier != "thorough" {
        usage();
    }
    let seed: u64 = std::env::var("VERIF_SEED").ok().and_then(|s| s.parse().ok()).unwrap_or(0);
    let ctx = Ctx::new(&id, &tier, seed);
    if let Some(path) = &replay {
        if !["C09", "C15", "C16", "C19", "C20"].contains(&id.as_str()) {
            std::process::exit(replay::run(&ctx, path));
        }
        println!("replay of {}: the check is fast and deterministic, re-running it", id);
    }
    let code = match id.as_str() {
        "C01" => lockstep::run(&ctx, true, false),
        "C02" => lockstep::run(&ctx, false, true),
        "C03" => search::run_c03(&ctx),
        "C04" => search::run_c04(&ctx),
        "C05" => poschecks::run_c05(&ctx),
        "C06" => search::run_c06(&ctx),
        "C14" => ucichecks::run_c14(&ctx),
        "C15" => c15::run_c15(&ctx),
        "C16" => c16::run_c16(&ctx),
        "C17" => search::run_c17(&ctx),
        "C18" => ucichecks::run_c18(&ctx),
        "C19" => search::run_c19(&ctx),
        "C07" => ucichecks::run_c07(&ctx),
        "C08" => poschecks::run_c08(&ctx),
        "C09" => static_checks::run_c09(&ctx),
        "C10" => poschecks::run_c10(&ctx),
        "C11" => poschecks::run_c11(&ctx),
        "C12" => poschecks::run_c12(&ctx),
        "C13" => poschecks::run_c13(&ctx),
        "C20" => static_checks::run_c20(&ctx),
        _ => {
            eprintln!("unknown property {}", id);
            2
        }
    };
    std::process::exit(code);
}
