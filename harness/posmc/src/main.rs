#![feature(generic_const_exprs)]
#![allow(incomplete_features)]
use weechess_engine::searcher::verif::VerifTable;
fn main(){ let t=VerifTable::new(1,1); println!("{}", t.max_entries()); }
