#![feature(generic_const_exprs)]
#![allow(incomplete_features)]
use weechess_core::notation::{try_from_notation, Fen};
use weechess_core::State;
use weechess_engine::eval::Evaluator;
use weechess_engine::searcher::verif::Plan;
use weechess_engine::searcher::{SearchArtifact, Searcher, StatusEvent};
fn main() {
    let fen = std::env::args().nth(1).unwrap();
    let cancel: usize = std::env::args().nth(2).unwrap().parse().unwrap();
    let hard: usize = std::env::args().nth(3).unwrap().parse().unwrap();
    let st: State = try_from_notation::<State, Fen>(&fen).unwrap();
    let plan = Plan::new(cancel, 0, hard);
    let shape: Vec<usize> = std::env::var("DBG_SHAPE").unwrap_or("4,256".into()).split(',').map(|x| x.parse().unwrap()).collect();
    let depth: Option<usize> = std::env::var("DBG_DEPTH").ok().map(|x| x.parse().unwrap());
    let seed: u64 = std::env::var("DBG_SEED").ok().map(|x| x.parse().unwrap()).unwrap_or(6);
    let t = std::time::Instant::now();
    let mut n = 0;
    let _ = Searcher::verif_analyze_sync(st, &Evaluator::default(), seed, depth, Some(SearchArtifact::verif_new(seed, shape[0], shape[1])), Some(1), Some(plan.clone()), &mut |e| {
        n += 1;
        if n < 12 { if let StatusEvent::BestMove { line, evaluation } = &e { println!("best {:?} {}", line.iter().map(|m| m.to_string()).collect::<Vec<_>>(), evaluation); } else if let StatusEvent::Progress{depth,nodes_searched,..} = &e { println!("progress d{} n{}", depth, nodes_searched); } }
    });
    println!("events {} nodes {} overrun {} cancelled {} {:?}", n, plan.nodes(), plan.overrun(), plan.was_cancelled(), t.elapsed());
}
