//! Position-universal checks: C05, C08, C10, C11, C12, C13.

use crate::bridge::*;
use crate::explore::{collect_families, run_families, threads};
use crate::families::*;
use crate::report::{finish, Ctx, Local};
use crate::space::*;
use oracle::san::{all_spellings, full_spelling};
use oracle::*;
use rand::SeedableRng;
use rand_chacha::ChaCha8Rng;
use serde_json::json;
use weechess_core::notation::{into_notation, lan::Lan, try_from_notation, Fen, San};
use weechess_core::{Color, MoveGenerator, MoveQuery, MoveResult, State, ZobristHasher};
use weechess_engine::eval::{Evaluation, Evaluator};

const ASSUME_ORACLE: &str = "reference model (oracle crate) validated against published perft counts; C01/C02 validate its transition relation against the implementation";

fn ev(e: Evaluation) -> i32 {
    e.into()
}

fn caught<T>(f: impl FnOnce() -> T + std::panic::UnwindSafe) -> Result<T, String> {
    std::panic::catch_unwind(f).map_err(|e| {
        if let Some(s) = e.downcast_ref::<String>() {
            s.clone()
        } else if let Some(s) = e.downcast_ref::<&str>() {
            s.to_string()
        } else {
            "panic".to_string()
        }
    })
}

// ------------------------------------------------------------------ C05

const C05_PLIES: [usize; 7] = [0, 1, 2, 9, 10, 11, 100];

pub fn c05_state(ctx: &Ctx, p: &Pos, l: &mut Local) {
    let st = to_state(p);
    let evaluator = Evaluator::default();
    let in_check = p.in_check(p.wtm);
    let has_move = p.has_legal_move();
    l.inc("states");
    let class = match (in_check, has_move) {
        (true, false) => {
            l.inc("checkmates");
            "checkmate"
        }
        (false, false) => {
            l.inc("stalemates");
            "stalemate"
        }
        _ => "has-move",
    };
    for white in [true, false] {
        for ply in C05_PLIES {
            l.inc("evaluations");
            let e = evaluator.evaluate(&st, w_color(white), ply);
            let ok = match class {
                "checkmate" => {
                    let m = Evaluation::mate_in_ply(ply);
                    e == if p.wtm == white { -m } else { m }
                }
                "stalemate" => e == Evaluation::EVEN,
                _ => !e.is_terminal(),
            };
            if !ok {
                ctx.violation(
                    match class {
                        "checkmate" => "checkmate-not-scored-as-mate",
                        "stalemate" => "stalemate-not-scored-as-draw",
                        _ => "non-terminal-scored-as-terminal",
                    },
                    p.fen(),
                    json!({"fen": p.fen(), "perspective_white": white, "ply": ply, "evaluation": ev(e), "class": class}),
                );
                return;
            }
        }
    }
}

pub fn run_c05(ctx: &Ctx) -> i32 {
    // mate score shape: complete loop over ply 0..=10^4
    let mut prev = Evaluation::mate_in_ply(0);
    for ply in 0..=10_000usize {
        let m = Evaluation::mate_in_ply(ply);
        if m < Evaluation::POS_INF || m > prev || !m.is_terminal() || !(-m).is_terminal() {
            ctx.violation("mate-score-shape", format!("ply {}", ply), json!({"ply": ply, "score": ev(m), "previous": ev(prev)}));
            break;
        }
        prev = m;
    }
    ctx.add("mate_score_plies_checked", 10_001);
    let cfg = SpaceCfg {
        stride: 1,
        with_f4: true,
        bfs_depths: if ctx.quick() { [3, 2, 2, 2] } else { [4, 3, 3, 3] },
        max_bfs_states: 50_000_000,
    };
    let (states, transitions) = std_space(ctx, &cfg, |p, l| c05_state(ctx, p, l));
    for f in ["3R2k1/5ppp/8/8/8/8/8/4K3 b - - 0 1", "7k/5Q2/6K1/8/8/8/8/8 b - - 0 1"] {
        let p = Pos::from_fen(f).unwrap();
        ctx.sample(json!({"state": f, "in_check": p.in_check(p.wtm), "has_legal_move": p.has_legal_move(), "evaluation_ply0_white": ev(Evaluator::default().evaluate(&to_state(&p), Color::White, 0))}));
    }
    finish(
        ctx,
        states,
        transitions.max(1),
        ctx.get("evaluations"),
        ctx.no_caps(),
        "every state of the complete families and BFS spaces x both perspectives x ply in {0,1,2,9,10,11,100}; the model classifies each state (checkmate / stalemate / has a move) and the implementation's static score must be in the matching class",
        &[ASSUME_ORACLE],
    )
}

// ------------------------------------------------------------------ C13

const C13_PLIES: [usize; 5] = [0, 1, 5, 10, 50];

pub fn c13_state(ctx: &Ctx, p: &Pos, l: &mut Local) {
    let st = to_state(p);
    let m = p.mirror();
    let mst = to_state(&m);
    let evaluator = Evaluator::default();
    l.inc("states");
    for ply in C13_PLIES {
        let w = evaluator.evaluate(&st, Color::White, ply);
        let b = evaluator.evaluate(&st, Color::Black, ply);
        l.add("evaluations", 4);
        if w != -b {
            ctx.violation("perspective-asymmetry", p.fen(), json!({"fen": p.fen(), "ply": ply, "white": ev(w), "black": ev(b)}));
            return;
        }
        let mw = evaluator.evaluate(&mst, Color::White, ply);
        let mb = evaluator.evaluate(&mst, Color::Black, ply);
        if mb != w || mw != b {
            ctx.violation(
                "mirror-asymmetry",
                p.fen(),
                json!({"fen": p.fen(), "mirror": m.fen(), "ply": ply, "white": ev(w), "black": ev(b), "mirror_white": ev(mw), "mirror_black": ev(mb)}),
            );
            return;
        }
    }
}

pub fn run_c13(ctx: &Ctx) -> i32 {
    let cfg = SpaceCfg {
        stride: 1,
        with_f4: true,
        bfs_depths: if ctx.quick() { [4, 2, 3, 2] } else { [5, 3, 4, 3] },
        max_bfs_states: 50_000_000,
    };
    let (states, transitions) = std_space(ctx, &cfg, |p, l| c13_state(ctx, p, l));
    let p = adversarial_roots()[22].clone();
    ctx.sample(json!({"state": p.fen(), "mirror": p.mirror().fen(), "white": ev(Evaluator::default().evaluate(&to_state(&p), Color::White, 0)), "mirror_black": ev(Evaluator::default().evaluate(&to_state(&p.mirror()), Color::Black, 0))}));
    finish(
        ctx,
        states,
        transitions.max(1),
        ctx.get("evaluations"),
        ctx.no_caps(),
        "every state of the complete families and BFS spaces x ply in {0,1,5,10,50}: negation identity between perspectives and equality with the colour-mirrored state (mirror computed by the reference model)",
        &[ASSUME_ORACLE],
    )
}

// ------------------------------------------------------------------ C08

fn hashers(ctx: &Ctx) -> Vec<(u64, ZobristHasher)> {
    let mut seeds = vec![0u64, 1, 2];
    if !seeds.contains(&ctx.seed) {
        seeds.push(ctx.seed);
    }
    seeds
        .into_iter()
        .map(|s| (s, ZobristHasher::with(&mut ChaCha8Rng::seed_from_u64(s))))
        .collect()
}

/// Single-component neighbours of a state that must hash differently.
fn cheap_neighbours(p: &Pos) -> Vec<(&'static str, Pos)> {
    let mut out = Vec::new();
    for bit in [WK, WQ, BK, BQ] {
        let mut q = p.clone();
        q.cr ^= bit;
        if q.is_legal_position() {
            out.push(("castling-right", q));
        }
    }
    {
        let mut q = p.clone();
        q.wtm = !q.wtm;
        q.ep = None;
        if p.ep.is_none() && q.is_legal_position() {
            out.push(("side-to-move", q));
        }
    }
    if p.ep.is_some() {
        // a difference is demanded only when a legal en-passant capture exists
        if p.ep_capture_available() {
            let mut q = p.clone();
            q.ep = None;
            out.push(("ep-capture-available", q));
        }
    } else {
        // add a target behind each pawn that could just have double-stepped
        let (r, tr) = if p.wtm { (4, 5) } else { (3, 2) };
        for f in 0..8 {
            let s = sq_at(f, r).unwrap();
            if p.b[s as usize] == code(!p.wtm, PAWN) {
                let mut q = p.clone();
                q.ep = sq_at(f, tr);
                if q.is_legal_position() && q.ep_capture_available() {
                    out.push(("ep-capture-available", q));
                }
            }
        }
    }
    out
}

fn placement_neighbours(p: &Pos) -> Vec<(&'static str, Pos)> {
    let mut out = Vec::new();
    for s in 0..64u8 {
        let c = p.b[s as usize];
        if c == EMPTY {
            continue;
        }
        // moved
        for t in 0..64u8 {
            if p.b[t as usize] == EMPTY {
                let mut q = p.clone();
                q.b[s as usize] = EMPTY;
                q.b[t as usize] = c;
                if q.is_legal_position() {
                    out.push(("piece-moved", q));
                }
            }
        }
        if kind(c) != KING {
            let mut q = p.clone();
            q.b[s as usize] = EMPTY;
            if q.is_legal_position() {
                out.push(("piece-removed", q));
            }
            let mut q = p.clone();
            q.b[s as usize] = code(!is_white(c), kind(c));
            if q.is_legal_position() {
                out.push(("piece-recoloured", q));
            }
            for k in [PAWN, KNIGHT, BISHOP, ROOK, QUEEN] {
                if k != kind(c) {
                    let mut q = p.clone();
                    q.b[s as usize] = code(is_white(c), k);
                    if q.is_legal_position() {
                        out.push(("piece-rekinded", q));
                    }
                }
            }
        }
    }
    out
}

pub fn c08_state(ctx: &Ctx, hs: &[(u64, ZobristHasher)], p: &Pos, l: &mut Local, placement: bool, transitions: bool) {
    let st = to_state(p);
    l.inc("states");
    // every hasher sees its own fresh position object first ...
    let base: Vec<u64> = hs.iter().map(|(_, h)| h.hash(&to_state(p))).collect();
    // ... and must give the same key for an object (and a clone of it) that other hashers
    // have looked at before: the key belongs to (hasher, position), not to the object
    {
        let shared = to_state(p);
        let cl = shared.clone();
        for (i, (seed, h)) in hs.iter().enumerate() {
            l.inc("equal_pairs");
            if h.hash(&shared) != base[i] || h.hash(&cl) != base[i] || h.hash(&shared.clone()) != base[i] {
                ctx.violation("hash-depends-on-earlier-queries", p.fen(), json!({"fen": p.fen(), "seed": seed, "explanation": "the same position object (or its clone) hashed by other hashers first gives another key than a fresh object"}));
                return;
            }
        }
    }
    // equal side: counters must not matter
    let mut q = p.clone();
    q.half = 37;
    q.full = 91;
    let qs = to_state(&q);
    for (i, (seed, h)) in hs.iter().enumerate() {
        l.inc("equal_pairs");
        if h.hash(&qs) != base[i] {
            ctx.violation("hash-depends-on-counters", p.fen(), json!({"fen": p.fen(), "seed": seed}));
            return;
        }
    }
    // equal side: the state reached by playing a move vs. the same state built directly
    if transitions {
        let ms = MoveGenerator::compute_legal_moves(&st);
        for MoveResult(m, s) in ms.moves() {
            let built = to_state(&from_state(s));
            for (seed, h) in hs {
                l.inc("equal_pairs");
                if h.hash(s) != h.hash(&built) {
                    ctx.violation(
                        "hash-depends-on-path",
                        format!("{} {}", p.fen(), mv_of(m).lan()),
                        json!({"fen": p.fen(), "move": mv_of(m).lan(), "seed": seed}),
                    );
                    return;
                }
            }
        }
    }
    // every legal castling-rights subset of this placement must get its own key
    {
        let mut seen: Vec<(u8, Vec<u64>)> = Vec::new();
        for cr in 0..16u8 {
            let mut q = p.clone();
            q.cr = cr;
            if cr == p.cr || q.is_legal_position() {
                let qs = to_state(&q);
                let hv: Vec<u64> = hs.iter().map(|(_, h)| h.hash(&qs)).collect();
                for (ocr, ohv) in &seen {
                    for i in 0..hv.len() {
                        l.inc("separation_pairs");
                        if hv[i] == ohv[i] {
                            let mut o = p.clone();
                            o.cr = *ocr;
                            ctx.violation("hash-ignores-castling-right", format!("{} | {}", o.epd(), q.epd()), json!({"a": o.fen(), "b": q.fen(), "differs_in": "castling rights (sets)", "seed": hs[i].0}));
                            return;
                        }
                    }
                }
                seen.push((cr, hv));
            }
        }
    }
    let mut ns = cheap_neighbours(p);
    if placement {
        ns.extend(placement_neighbours(p));
    }
    for (what, n) in ns {
        let nst = to_state(&n);
        for (i, (seed, h)) in hs.iter().enumerate() {
            l.inc("separation_pairs");
            if h.hash(&nst) == base[i] {
                ctx.violation(
                    match what {
                        "castling-right" => "hash-ignores-castling-right",
                        "side-to-move" => "hash-ignores-side-to-move",
                        "ep-capture-available" => "hash-ignores-en-passant",
                        _ => "hash-ignores-placement",
                    },
                    format!("{} | {}", p.epd(), n.epd()),
                    json!({"a": p.fen(), "b": n.fen(), "differs_in": what, "seed": seed}),
                );
                return;
            }
        }
    }
}

pub fn run_c08(ctx: &Ctx) -> i32 {
    let hs = hashers(ctx);
    let quick = ctx.quick();
    // cheap neighbours on everything, placement neighbours on a strided sub-family + BFS spaces
    let fams = std_families(quick, false);
    let mut states = run_families(ctx, &fams, 1, |p, l| c08_state(ctx, &hs, p, l, false, false));
    let sub = if quick { 23 } else { 5 };
    states += run_families(ctx, &fams, sub, |p, l| c08_state(ctx, &hs, p, l, true, true));
    let mut transitions = 0;
    for (name, roots, depth) in bfs_groups(if quick { [3, 2, 2, 1] } else { [4, 3, 3, 2] }) {
        let r = crate::explore::bfs(ctx, name, &roots, depth, 20_000_000, |p, l, _| {
            c08_state(ctx, &hs, p, l, true, true);
            p.legal().into_iter().map(|x| x.1).collect()
        });
        states += r.states;
        transitions += r.transitions;
    }
    // global injectivity on complete families: no two distinct positions of F3 (and of the
    // F4 sub-family) may share a key - this also covers pairs that differ in two components
    // at once (e.g. a white and a black piece of one kind with swapped squares), which no
    // single-component neighbourhood contains
    {
        use std::collections::HashMap;
        use std::sync::Mutex;
        let inj_fams = vec![f3(), f4(vec![(KNIGHT, KNIGHT), (ROOK, ROOK), (PAWN, PAWN)], vec![2, 27], "F4(same-kind pairs, white king c1/d4)")];
        for (seed, h) in hs.iter().take(if quick { 2 } else { hs.len() }) {
            let shards: Vec<Mutex<HashMap<u64, Key>>> = (0..256).map(|_| Mutex::new(HashMap::new())).collect();
            let n = run_families(ctx, &inj_fams, if quick { 2 } else { 1 }, |p, l| {
                let hv = h.hash(&to_state(p));
                let k = p.key();
                l.inc("injectivity_positions");
                let mut g = shards[(hv >> 56) as usize].lock().unwrap();
                if let Some(other) = g.get(&hv).copied() {
                    if other != k {
                        drop(g);
                        // rebuild the other position's text from its key
                        let mut o = Pos::empty();
                        for i in 0..32 {
                            o.b[2 * i] = other[i] & 15;
                            o.b[2 * i + 1] = other[i] >> 4;
                        }
                        o.cr = other[32] & 15;
                        o.wtm = other[32] & 16 != 0;
                        o.ep = if other[33] == 0 { None } else { Some(other[33] - 1) };
                        ctx.violation("hash-collision-between-distinct-positions", format!("{} | {}", o.epd(), p.epd()), json!({"a": o.fen(), "b": p.fen(), "seed": seed, "hash": hv}));
                    }
                } else {
                    g.insert(hv, k);
                }
            });
            states += n;
        }
    }
    // transpositions: two move orders reaching the same position must hash equal (BFS
    // from the start position by implementation moves, grouped by the model's key)
    {
        use std::collections::HashMap;
        let mut level: Vec<(State, Pos)> = vec![(State::default(), Pos::startpos())];
        let mut pairs = 0u64;
        for _ in 0..(if quick { 3 } else { 4 }) {
            let mut next: HashMap<Key, (State, Pos)> = HashMap::new();
            for (st, _) in &level {
                for MoveResult(_, s) in MoveGenerator::compute_legal_moves(st).moves() {
                    let pos = from_state(s);
                    match next.get(&pos.key()) {
                        None => {
                            next.insert(pos.key(), (s.clone(), pos));
                        }
                        Some((other, _)) => {
                            pairs += 1;
                            for (seed, h) in &hs {
                                if h.hash(other) != h.hash(s) {
                                    ctx.violation("hash-depends-on-move-order", pos.fen(), json!({"fen": pos.fen(), "seed": seed}));
                                }
                            }
                        }
                    }
                }
            }
            level = next.into_values().collect();
        }
        ctx.add("transposition_pairs", pairs);
    }
    let p = Pos::from_fen("4k3/8/8/8/8/8/8/4K2R w K - 0 1").unwrap();
    ctx.sample(json!({"a": p.fen(), "b": "4k3/8/8/8/8/8/8/4K2R w - - 0 1", "relation": "must hash differently (castling right)", "seeds": hs.iter().map(|x| x.0).collect::<Vec<_>>()}));
    finish(
        ctx,
        states,
        (transitions + ctx.get("separation_pairs")).max(1),
        ctx.get("separation_pairs") + ctx.get("equal_pairs"),
        ctx.no_caps(),
        "every state of the families and BFS spaces x hasher seeds {0,1,2,VERIF_SEED}; must-equal twins (counters changed, reached by a move vs. built directly, transposing move orders, the same object or its clone after other hashers have queried it) and every single-component legal neighbour (each castling right toggled, ep target with a legal capture removed/added, side flipped; on a strided sub-space and the BFS spaces also every piece moved/removed/recoloured/re-kinded) which must hash differently; global injectivity of the key on the complete family F3 and a same-kind F4 sub-family (any two distinct positions)",
        &[ASSUME_ORACLE, "a 64-bit chance collision would be reported (and be reproducible from the replay file); none is tolerated silently"],
    )
}

// ------------------------------------------------------------------ C10

pub fn c10_state(ctx: &Ctx, p: &Pos, l: &mut Local, legal_pos: bool) {
    // is_check asked first on a fresh object (nothing cached yet), per colour
    for white in [true, false] {
        let fresh = to_state(p);
        if fresh.board().is_check(w_color(white)) != p.in_check(white) {
            ctx.violation("is-check-mismatch-on-fresh-object", p.fen(), json!({"fen": p.fen(), "white": white, "expected": p.in_check(white)}));
            return;
        }
    }
    if legal_pos && to_state(p).is_check() != p.in_check(p.wtm) {
        ctx.violation("state-is-check-mismatch-on-fresh-object", p.fen(), json!({"fen": p.fen()}));
        return;
    }
    let st = to_state(p);
    l.inc("states");
    for white in [true, false] {
        let c = w_color(white);
        let all = bb_to_u64(st.board().colored_attacks(c));
        let pawn = bb_to_u64(st.board().colored_pawn_attacks(c));
        let want_all = p.attack_set(white, false);
        let want_pawn = p.attack_set(white, true);
        l.add("attack_sets", 2);
        if all != want_all {
            ctx.violation("attack-set-mismatch", p.fen(), json!({"fen": p.fen(), "white": white, "expected": format!("{:016x}", want_all), "actual": format!("{:016x}", all)}));
            return;
        }
        if pawn != want_pawn {
            ctx.violation("pawn-attack-set-mismatch", p.fen(), json!({"fen": p.fen(), "white": white, "expected": format!("{:016x}", want_pawn), "actual": format!("{:016x}", pawn)}));
            return;
        }
        let chk = st.board().is_check(c);
        let want = p.in_check(white);
        if chk != want {
            ctx.violation("is-check-mismatch", p.fen(), json!({"fen": p.fen(), "white": white, "expected": want, "actual": chk}));
            return;
        }
    }
    if legal_pos && st.is_check() != p.in_check(p.wtm) {
        ctx.violation("state-is-check-mismatch", p.fen(), json!({"fen": p.fen()}));
    }
}

/// Every sequence of length <= `len` over the query/clone alphabet on one position object.
pub fn c10_histories(ctx: &Ctx, p: &Pos, l: &mut Local, len: usize) {
    let want: [u64; 6] = [
        p.attack_set(true, false),
        p.attack_set(false, false),
        p.attack_set(true, true),
        p.attack_set(false, true),
        p.in_check(true) as u64,
        p.in_check(false) as u64,
    ];
    let n_ops = 8usize;
    let total = n_ops.pow(len as u32);
    for code_ in 0..total {
        let mut c = code_;
        let mut cur = to_state(p);
        let mut kept: Vec<State> = Vec::new();
        let mut seq = Vec::with_capacity(len);
        for _ in 0..len {
            let op = c % n_ops;
            c /= n_ops;
            seq.push(op);
            let got = match op {
                0 => Some((0, bb_to_u64(cur.board().colored_attacks(Color::White)))),
                1 => Some((1, bb_to_u64(cur.board().colored_attacks(Color::Black)))),
                2 => Some((2, bb_to_u64(cur.board().colored_pawn_attacks(Color::White)))),
                3 => Some((3, bb_to_u64(cur.board().colored_pawn_attacks(Color::Black)))),
                4 => Some((4, cur.board().is_check(Color::White) as u64)),
                5 => Some((5, cur.board().is_check(Color::Black) as u64)),
                6 => {
                    // clone and continue on the clone (the original is kept alive)
                    let cl = cur.clone();
                    kept.push(std::mem::replace(&mut cur, cl));
                    None
                }
                _ => {
                    // clone and continue on the original
                    kept.push(cur.clone());
                    None
                }
            };
            l.inc("history_ops");
            if let Some((i, v)) = got {
                if v != want[i] {
                    ctx.violation("query-history-dependence", p.fen(), json!({"fen": p.fen(), "sequence": seq, "query": i, "expected": want[i], "actual": v}));
                    return;
                }
            }
        }
        // all kept clones must answer correctly as well
        for k in &kept {
            if bb_to_u64(k.board().colored_attacks(Color::White)) != want[0] || bb_to_u64(k.board().colored_attacks(Color::Black)) != want[1] {
                ctx.violation("query-history-dependence", p.fen(), json!({"fen": p.fen(), "sequence": seq, "query": "kept clone"}));
                return;
            }
        }
        l.inc("history_sequences");
    }
}

pub fn run_c10(ctx: &Ctx) -> i32 {
    let quick = ctx.quick();
    let cfg = SpaceCfg {
        stride: 1,
        with_f4: true,
        bfs_depths: if quick { [4, 2, 3, 2] } else { [5, 3, 4, 3] },
        max_bfs_states: 50_000_000,
    };
    let (mut states, transitions) = std_space(ctx, &cfg, |p, l| c10_state(ctx, p, l, true));
    let arb = vec![
        farbitrary(false, vec![]),
        farbitrary(true, if quick { vec![KNIGHT, PAWN | BLACK] } else { vec![KNIGHT, KNIGHT | BLACK, PAWN, PAWN | BLACK] }),
    ];
    states += run_families(ctx, &arb, 1, |p, l| c10_state(ctx, p, l, false));
    // successor boards: the board produced by applying a move must answer like a fresh one
    let succ_checked = std::sync::atomic::AtomicU64::new(0);
    for (name, roots, depth) in bfs_groups(if quick { [2, 1, 2, 1] } else { [3, 2, 3, 2] }) {
        crate::explore::bfs(ctx, &format!("succ-{}", name), &roots, depth, 5_000_000, |p, l, _| {
            let st = to_state(p);
            // warm the parent's cache first: a successor must not inherit it
            let _ = st.board().colored_attacks(Color::White);
            let _ = st.board().colored_attacks(Color::Black);
            let ms = MoveGenerator::compute_legal_moves(&st);
            for MoveResult(_, s) in ms.moves() {
                let n = from_state(s);
                for white in [true, false] {
                    if bb_to_u64(s.board().colored_attacks(w_color(white))) != n.attack_set(white, false)
                        || bb_to_u64(s.board().colored_pawn_attacks(w_color(white))) != n.attack_set(white, true)
                    {
                        ctx.violation("successor-attack-set-stale", n.fen(), json!({"parent": p.fen(), "fen": n.fen(), "white": white}));
                    }
                }
                succ_checked.fetch_add(1, std::sync::atomic::Ordering::Relaxed);
            }
            l.inc("succ_parent_states");
            p.legal().into_iter().map(|x| x.1).collect()
        });
    }
    ctx.add("successor_boards_checked", succ_checked.load(std::sync::atomic::Ordering::Relaxed));
    // query/clone histories on a sub-space
    let mut sub: Vec<Pos> = adversarial_roots();
    sub.extend(perft_roots().into_iter().map(|x| x.1));
    sub.extend(collect_families(&[f3(), fcastle(false), fpromo(), fmate()], if quick { 97 } else { 11 }).into_iter().step_by(if quick { 61 } else { 13 }));
    let len = if quick { 3 } else { 4 };
    let next = std::sync::atomic::AtomicUsize::new(0);
    std::thread::scope(|s| {
        for _ in 0..threads() {
            s.spawn(|| {
                let mut l = Local::default();
                loop {
                    let i = next.fetch_add(1, std::sync::atomic::Ordering::Relaxed);
                    if i >= sub.len() {
                        break;
                    }
                    for n in 1..=len {
                        c10_histories(ctx, &sub[i], &mut l, n);
                    }
                    l.inc("history_states");
                }
                ctx.merge(l);
            });
        }
    });
    let p = adversarial_roots()[0].clone();
    ctx.sample(json!({"state": p.fen(), "white_attacks": format!("{:016x}", p.attack_set(true, false)), "black_attacks": format!("{:016x}", p.attack_set(false, false)), "white_in_check": p.in_check(true)}));
    ctx.sample(json!({"history": ["attacks W", "clone->clone", "is_check B"], "state": p.fen(), "checked": "every answer equals the model's, on the clone and on the kept original"}));
    finish(
        ctx,
        states,
        (transitions + ctx.get("history_ops")).max(1),
        ctx.get("attack_sets") + ctx.get("history_ops"),
        ctx.no_caps(),
        "every state of the families and BFS spaces plus every 1-, 2- and (menu-restricted) 3-piece arbitrary placement x both colours: attack set, pawn attack set, is_check vs. the model's union of square-by-square ray walks; every successor board of BFS states (parent cache warmed first); every query/clone sequence of length <= 3 (quick) / 4 (thorough) over an 8-letter alphabet on a sub-space",
        &[ASSUME_ORACLE],
    )
}

// ------------------------------------------------------------------ C11

fn fen_of(st: &State) -> String {
    into_notation::<_, Fen>(st).to_string()
}

pub fn c11_state(ctx: &Ctx, hs: &[(u64, ZobristHasher)], p: &Pos, l: &mut Local, variants: bool) {
    let st = to_state(p);
    l.inc("states");
    // the implementation's own text round-trips and equals the model writer's text
    let text = fen_of(&st);
    if text != p.fen() {
        ctx.violation("fen-writer-mismatch", p.fen(), json!({"expected": p.fen(), "actual": text}));
        return;
    }
    let back: State = match try_from_notation::<State, Fen>(&text) {
        Ok(s) => s,
        Err(_) => {
            ctx.violation("own-fen-rejected", p.fen(), json!({"fen": text}));
            return;
        }
    };
    l.inc("round_trips");
    let text2 = fen_of(&back);
    if text2 != text {
        ctx.violation("fen-round-trip-text", p.fen(), json!({"first": text, "second": text2}));
        return;
    }
    if from_state(&back) != *p {
        ctx.violation("fen-round-trip-position", p.fen(), json!({"fen": text, "reread": from_state(&back).fen()}));
        return;
    }
    // same legal moves, hash, evaluation
    let a: Vec<Mv> = MoveGenerator::compute_legal_moves(&st).moves().iter().map(|r| mv_of(&r.0)).collect();
    let b: Vec<Mv> = MoveGenerator::compute_legal_moves(&back).moves().iter().map(|r| mv_of(&r.0)).collect();
    if a != b {
        ctx.violation("fen-round-trip-moves", p.fen(), json!({"fen": text}));
        return;
    }
    for (seed, h) in hs {
        if h.hash(&st) != h.hash(&back) {
            ctx.violation("fen-round-trip-hash", p.fen(), json!({"fen": text, "seed": seed}));
            return;
        }
    }
    let e = Evaluator::default();
    for c in [Color::White, Color::Black] {
        if e.evaluate(&st, c, 0) != e.evaluate(&back, c, 0) {
            ctx.violation("fen-round-trip-evaluation", p.fen(), json!({"fen": text}));
            return;
        }
    }
    if variants {
        // canonical strings from the model's writer with field variants
        let mut vs: Vec<Pos> = Vec::new();
        for cr in 0..16u8 {
            let mut q = p.clone();
            q.cr = cr;
            q.ep = None;
            if q.is_legal_position() {
                vs.push(q);
            }
        }
        for f in 0..8 {
            for r in [2, 5] {
                let mut q = p.clone();
                q.ep = sq_at(f, r);
                if q.is_legal_position() {
                    vs.push(q);
                }
            }
        }
        for (h, f) in [(0u64, 1u64), (1, 1), (9, 10), (10, 9), (99, 100), (100, 99), (65535, 65535), (1 << 32, 1 << 32), (u64::MAX, u64::MAX)] {
            let mut q = p.clone();
            q.half = h;
            q.full = f;
            vs.push(q);
        }
        for q in vs {
            let s = q.fen();
            l.inc("variant_strings");
            match try_from_notation::<State, Fen>(&s) {
                Ok(st2) => {
                    let w = fen_of(&st2);
                    if w != s {
                        ctx.violation("canonical-fen-not-reproduced", s.clone(), json!({"input": s, "output": w}));
                        return;
                    }
                }
                Err(_) => {
                    ctx.violation("canonical-fen-rejected", s.clone(), json!({"input": s}));
                    return;
                }
            }
        }
    }
}

pub fn run_c11(ctx: &Ctx) -> i32 {
    let quick = ctx.quick();
    let hs = hashers(ctx);
    let fams = std_families(quick, false);
    // the FEN reader compiles its regular expression on every call, so the families are
    // strided (a complete sub-family) while the play-reachable BFS spaces are complete
    let mut states = run_families(ctx, &fams, if quick { 173 } else { 7 }, |p, l| {
        let v = p.key()[5] % 16 == 0 && (!quick || p.key()[9] % 4 == 0);
        c11_state(ctx, &hs, p, l, v)
    });
    let mut transitions = 0;
    for (name, roots, depth) in bfs_groups(if quick { [3, 1, 2, 0] } else { [4, 2, 3, 2] }) {
        let r = crate::explore::bfs(ctx, name, &roots, depth, 5_000_000, |p, l, level| {
            c11_state(ctx, &hs, p, l, level == 0 || (level == 1 && !quick));
            p.legal().into_iter().map(|x| x.1).collect()
        });
        states += r.states;
        transitions += r.transitions;
    }
    ctx.sample(json!({"canonical_fen": "r3k2r/8/8/8/8/8/8/R3K2R w Kq - 99 100", "checked": "read and written back character for character"}));
    ctx.sample(json!({"state": Pos::startpos().fen(), "checked": "write -> read -> write identical; re-read position has the same moves, hash, evaluation"}));
    finish(
        ctx,
        states,
        (transitions + ctx.get("variant_strings")).max(1),
        ctx.get("round_trips") + ctx.get("variant_strings"),
        ctx.no_caps(),
        "every state of the BFS spaces (positions reached by play) and of a strided complete sub-family of the families: implementation text equals the model writer's text, write->read->write is the identity, the re-read position has the same move list, hash and evaluation; for a sub-space every field variant (16 rights sets where legal, ep squares on both ranks where legal, counters up to u64::MAX) written by the model is read and written back character for character",
        &[ASSUME_ORACLE],
    )
}

// ------------------------------------------------------------------ C12

pub fn c12_state(ctx: &Ctx, p: &Pos, l: &mut Local) {
    let st = to_state(p);
    let ms = MoveGenerator::compute_legal_moves(&st);
    let legal = p.legal();
    l.inc("states");
    for (m, succ) in &legal {
        for s in all_spellings(m, succ, &legal) {
            l.inc("spellings");
            let q: MoveQuery = match try_from_notation::<MoveQuery, San>(&s) {
                Ok(q) => q,
                Err(_) => {
                    ctx.violation("san-rejected", format!("{} {}", p.fen(), s), json!({"fen": p.fen(), "san": s, "move": m.lan()}));
                    return;
                }
            };
            let hits: Vec<Mv> = ms.filter(q).map(|r| mv_of(&r.0)).collect();
            if hits.len() != 1 || hits[0] != *m {
                ctx.violation(
                    "san-resolves-wrongly",
                    format!("{} {}", p.fen(), s),
                    json!({"fen": p.fen(), "san": s, "intended": m.lan(), "matched": hits.iter().map(|h| h.lan()).collect::<Vec<_>>()}),
                );
                return;
            }
            // first-match resolution (used when the opening book is read) must agree
            match ms.find(&q) {
                Some(MoveResult(f, _)) if mv_of(&f) == *m => {}
                other => {
                    ctx.violation("san-find-wrong", format!("{} {}", p.fen(), s), json!({"fen": p.fen(), "san": s, "intended": m.lan(), "found": other.map(|r| mv_of(&r.0).lan())}));
                    return;
                }
            }
        }
        // coordinate notation
        let wm = ms.moves().iter().find(|r| mv_of(&r.0) == *m);
        if let Some(MoveResult(wm, _)) = wm {
            let text = into_notation::<_, Lan>(wm).to_string();
            l.inc("lan_texts");
            if text != m.lan() {
                ctx.violation("lan-text-wrong", format!("{} {}", p.fen(), m.lan()), json!({"fen": p.fen(), "expected": m.lan(), "actual": text}));
                return;
            }
            // rebuild the query from the text the way the UCI loop does
            let from = sq_from_name(&text[0..2]).unwrap();
            let to = sq_from_name(&text[2..4]).unwrap();
            let mut q = MoveQuery::new();
            q.set_origin(w_square(from));
            q.set_destination(w_square(to));
            match text.chars().nth(4) {
                Some('q') => q.set_promotion(w_piece(QUEEN)),
                Some('r') => q.set_promotion(w_piece(ROOK)),
                Some('b') => q.set_promotion(w_piece(BISHOP)),
                Some('n') => q.set_promotion(w_piece(KNIGHT)),
                _ => {}
            }
            match State::by_performing_moves(&st, &[q]) {
                Ok(s2) if from_state(&s2) == *succ => {}
                other => {
                    ctx.violation("lan-text-selects-other-move", format!("{} {}", p.fen(), text), json!({"fen": p.fen(), "lan": text, "result": other.map(|s| from_state(&s).fen()).map_err(|e| e.to_string())}));
                    return;
                }
            }
        }
    }
    for m in p.illegal_pseudo_moves() {
        let s = full_spelling(&m);
        l.inc("negative_spellings");
        if let Ok(q) = try_from_notation::<MoveQuery, San>(&s) {
            let hits: Vec<Mv> = ms.filter(q).map(|r| mv_of(&r.0)).collect();
            // a pawn spelling carries no origin rank: it is only a negative case when no
            // legal move has the same spelling
            let same_spelling_legal = legal.iter().any(|(lm, _)| full_spelling(lm) == s);
            if !hits.is_empty() && !same_spelling_legal {
                ctx.violation("san-of-illegal-move-matches", format!("{} {}", p.fen(), s), json!({"fen": p.fen(), "san": s, "matched": hits.iter().map(|h| h.lan()).collect::<Vec<_>>()}));
                return;
            }
        }
    }
}

/// Validation of the reference SAN writer against text that comes from neither code base:
/// every move token of the first plies of every game in the book corpus must be one of
/// the spellings the writer produces for the move it denotes.
fn validate_san_writer(ctx: &Ctx) {
    let mut files: Vec<_> = match std::fs::read_dir("/repo/book") {
        Ok(d) => d.filter_map(|e| e.ok()).map(|e| e.path()).collect(),
        Err(_) => return,
    };
    files.sort();
    let (mut tokens, mut bad) = (0u64, Vec::new());
    for f in files.iter().step_by(if ctx.quick() { 6 } else { 1 }) {
        let Ok(text) = std::fs::read_to_string(f) else { continue };
        for g in oracle::pgn::read_games(&text) {
            if g.tags.iter().any(|(k, _)| k == "FEN") {
                continue;
            }
            let mut p = Pos::startpos();
            for tok in g.moves.iter().take(if ctx.quick() { 30 } else { 80 }) {
                let Ok((m, n)) = oracle::san::read_san(&p, tok) else { break };
                let legal = p.legal();
                let spell = all_spellings(&m, &n, &legal);
                let t = tok.trim_end_matches(|c| c == '!' || c == '?');
                tokens += 1;
                if !spell.iter().any(|s| s == t) && bad.len() < 5 {
                    bad.push(format!("{} in {} (writer: {:?})", tok, p.fen(), spell));
                }
                p = n;
            }
        }
    }
    assert!(bad.is_empty(), "reference SAN writer disagrees with the PGN corpus: {:?}", bad);
    ctx.set_extra("oracle_validation", json!({"san_writer": "every move token of the sampled PGN corpus is one of the writer's spellings for the move it denotes", "tokens": tokens}));
}

pub fn run_c12(ctx: &Ctx) -> i32 {
    validate_san_writer(ctx);
    let cfg = SpaceCfg {
        stride: if ctx.quick() { 3 } else { 1 },
        with_f4: true,
        bfs_depths: if ctx.quick() { [3, 2, 2, 2] } else { [4, 3, 3, 3] },
        max_bfs_states: 30_000_000,
    };
    let (states, transitions) = std_space(ctx, &cfg, |p, l| c12_state(ctx, p, l));
    let p = Pos::from_fen("r3k2r/p1ppqpb1/bn2pnp1/3PN3/1p2P3/2N2Q1p/PPPBBPPP/R3K2R w KQkq - 0 1").unwrap();
    let legal = p.legal();
    let sp: Vec<Vec<String>> = legal.iter().take(6).map(|(m, s)| all_spellings(m, s, &legal)).collect();
    ctx.sample(json!({"state": p.fen(), "spellings_of_first_moves": sp}));
    finish(
        ctx,
        states,
        (transitions + ctx.get("spellings")).max(1),
        ctx.get("spellings") + ctx.get("negative_spellings") + ctx.get("lan_texts"),
        ctx.no_caps() && cfg.stride == 1,
        "every state of the families (quick: a complete sub-family of every third chunk) and BFS spaces x every legal move x every admissible SAN spelling from the model's writer (no/file/rank/full disambiguation where unambiguous, x, =Q and Q, with and without +/#, O-O/O-O-O): parses, filter matches exactly that move, find returns it; coordinate text equals the model's and selects the same successor; fully disambiguated spellings of pseudo-legal-but-illegal moves match nothing",
        &[ASSUME_ORACLE],
    )
}

/// Replay helper for C08 / C11 (they need the run's hasher set).
pub fn replay_hash_or_fen(ctx: &Ctx, prop: &str, p: &Pos, l: &mut Local) {
    let hs = hashers(ctx);
    if prop == "C08" {
        c08_state(ctx, &hs, p, l, true, true);
    } else {
        c11_state(ctx, &hs, p, l, true);
    }
}
