//! C16: the opening book offers exactly the recorded, legal moves.

use crate::bridge::*;
use crate::explore::{bfs, run_families};
use crate::families::*;
use crate::report::{finish, Ctx, Local};
use oracle::pgn::read_games;
use oracle::san::read_san;
use oracle::*;
use serde_json::json;
use std::collections::{BTreeMap, BTreeSet};
use weechess_engine::book::OpeningBook;

const BOOK_DIR: &str = "/repo/book";
const PLIES: usize = 10;

/// Position identity of the property: placement, side, rights, en-passant capture availability.
fn identity(p: &Pos) -> Key {
    let mut q = p.clone();
    if !q.ep_capture_available() {
        q.ep = None;
    }
    q.key()
}

fn offered(book: &OpeningBook, p: &Pos) -> Option<BTreeSet<Mv>> {
    book.lookup(&to_state(p)).map(|s| s.iter().map(mv_of).collect())
}

fn check_offer_legal(ctx: &Ctx, book: &OpeningBook, p: &Pos, l: &mut Local, what: &str) {
    l.inc("lookups");
    if let Some(set) = offered(book, p) {
        l.inc("lookups_with_offer");
        let legal: BTreeSet<Mv> = p.legal_moves().into_iter().collect();
        for m in &set {
            if !legal.contains(m) {
                ctx.violation("book-offers-illegal-move", p.fen(), json!({"fen": p.fen(), "move": m.lan(), "how_reached": what}));
                return;
            }
        }
        if set.is_empty() {
            ctx.violation("book-offers-empty-set", p.fen(), json!({"fen": p.fen()}));
        }
    }
}

pub fn run_c16(ctx: &Ctx) -> i32 {
    let quick = ctx.quick();
    let book = OpeningBook::try_default().expect("embedded book does not load");
    // 1. independent reading of the whole corpus
    let mut expected: BTreeMap<Key, (Pos, BTreeSet<Mv>)> = BTreeMap::new();
    let mut files: Vec<_> = std::fs::read_dir(BOOK_DIR).expect("book directory").filter_map(|e| e.ok()).filter(|e| e.file_type().map(|t| t.is_file()).unwrap_or(false)).map(|e| e.path()).collect();
    files.sort();
    let mut games_total = 0u64;
    let mut plies_total = 0u64;
    let mut beyond: Vec<Pos> = Vec::new();
    for f in &files {
        let text = std::fs::read_to_string(f).expect("book file is not UTF-8");
        for g in read_games(&text) {
            games_total += 1;
            let mut p = Pos::startpos();
            // a game may start from a set-up position
            if let Some((_, fen)) = g.tags.iter().find(|(k, _)| k == "FEN") {
                match Pos::from_fen(fen) {
                    Some(q) => p = q,
                    None => {
                        ctx.note(format!("{}:{} game with unreadable FEN tag skipped", f.display(), g.line));
                        continue;
                    }
                }
                ctx.add("games_with_setup_position", 1);
                // the build script replays every game from the start position; a set-up game is
                // outside what the book can represent and is reported, not silently compared
                ctx.note(format!("{}:{} game starts from a set-up position", f.display(), g.line));
                continue;
            }
            for (ply, tok) in g.moves.iter().take(PLIES + 6).enumerate() {
                match read_san(&p, tok) {
                    Ok((m, n)) => {
                        if ply < PLIES {
                            plies_total += 1;
                            expected.entry(identity(&p)).or_insert_with(|| (p.clone(), BTreeSet::new())).1.insert(m);
                        } else {
                            // positions after the tenth ply: the book must not know them
                            // (unless they transpose into a recorded position)
                            beyond.push(p.clone());
                        }
                        p = n;
                    }
                    Err(e) => {
                        ctx.violation(
                            "book-game-unreadable",
                            format!("{}:{} {}", f.file_name().unwrap().to_string_lossy(), g.line, tok),
                            json!({"file": f.display().to_string(), "game_line": g.line, "token": tok, "position": p.fen(), "error": format!("{:?}", e)}),
                        );
                        break;
                    }
                }
            }
        }
    }
    ctx.add("book_files", files.len() as u64);
    ctx.add("book_games", games_total);
    ctx.add("book_plies", plies_total);
    ctx.add("book_positions", expected.len() as u64);

    // 2. every book position: exact set, in both representations of the same position
    let items: Vec<&(Pos, BTreeSet<Mv>)> = expected.values().collect();
    let next = std::sync::atomic::AtomicUsize::new(0);
    std::thread::scope(|s| {
        for _ in 0..crate::explore::threads() {
            s.spawn(|| {
                let mut l = Local::default();
                loop {
                    let i = next.fetch_add(1, std::sync::atomic::Ordering::Relaxed);
                    if i >= items.len() {
                        break;
                    }
                    let (p, want) = items[i];
                    let mut reps = vec![p.clone()];
                    if p.ep.is_some() && !p.ep_capture_available() {
                        let mut q = p.clone();
                        q.ep = None;
                        reps.push(q);
                    }
                    // the same position reached by a longer or shorter history: the move
                    // counters are not part of a position's identity
                    let n_base = reps.len();
                    for (half, full) in [(0u64, 1u64), (p.half + 7, p.full + 3), (40, 30), (99, 200)] {
                        let mut q = p.clone();
                        q.half = half;
                        q.full = full;
                        reps.push(q);
                    }
                    for (ri, q) in reps.iter().enumerate() {
                        l.inc("book_position_lookups");
                        let got = offered(&book, q).unwrap_or_default();
                        if got != *want {
                            let missing: Vec<String> = want.difference(&got).map(|m| m.lan()).collect();
                            let extra: Vec<String> = got.difference(want).map(|m| m.lan()).collect();
                            ctx.violation(
                                if !extra.is_empty() { "book-offers-unrecorded-move" } else { "book-misses-recorded-move" },
                                q.fen(),
                                json!({"fen": q.fen(), "representation": if ri == 0 { "as reached in the game" } else if ri < n_base { "dead en-passant target dropped" } else { "other move counters (another history)" }, "recorded": want.iter().map(|m| m.lan()).collect::<Vec<_>>(), "missing": missing, "extra": extra}),
                            );
                            break;
                        }
                    }
                    // every variant of the book position that is a legal position: nothing or legal moves only
                    for cr in 0..16u8 {
                        for flip in [false, true] {
                            let mut q = p.clone();
                            q.cr = cr;
                            if flip {
                                q.wtm = !q.wtm;
                                q.ep = None;
                            }
                            if q.key() != p.key() && q.is_legal_position() {
                                check_offer_legal(ctx, &book, &q, &mut l, "castling-rights / side variant of a book position");
                            }
                        }
                    }
                    // ep variants: add a target behind every pawn that could just have double-stepped
                    let (r, tr) = if p.wtm { (4, 5) } else { (3, 2) };
                    for f in 0..8 {
                        let mut q = p.clone();
                        q.ep = sq_at(f, tr);
                        if p.b[sq_at(f, r).unwrap() as usize] == code(!p.wtm, PAWN) && q.key() != p.key() && q.is_legal_position() {
                            check_offer_legal(ctx, &book, &q, &mut l, "en-passant variant of a book position");
                            // a variant whose identity differs must not get this position's moves
                            // unless they are legal there (checked above)
                        }
                    }
                }
                ctx.merge(l);
            });
        }
    });

    // 2b. game positions after the tenth ply
    {
        beyond.sort_by(|a, b| a.key().cmp(&b.key()));
        beyond.dedup_by(|a, b| a.key() == b.key());
        ctx.add("positions_beyond_ply_10", beyond.len() as u64);
        let mut l = Local::default();
        for p in &beyond {
            l.inc("lookups");
            if !expected.contains_key(&identity(p)) {
                if let Some(set) = offered(&book, p) {
                    ctx.violation("book-offers-move-for-unrecorded-position", p.fen(), json!({"fen": p.fen(), "offered": set.iter().map(|m| m.lan()).collect::<Vec<_>>(), "how_reached": "game position after the tenth ply"}));
                    break;
                }
            }
        }
        ctx.merge(l);
    }

    // 3. other positions: BFS from the start position, castling families
    let mut states = expected.len() as u64;
    let r = bfs(ctx, "startpos", &[Pos::startpos()], if quick { 5 } else { 6 }, 150_000_000, |p, l, _| {
        check_offer_legal(ctx, &book, p, l, "reached by play from the start position");
        // a position that is not a book position (by identity) must get nothing
        if !expected.contains_key(&identity(p)) && offered(&book, p).is_some() {
            ctx.violation("book-offers-move-for-unrecorded-position", p.fen(), json!({"fen": p.fen(), "offered": offered(&book, p).unwrap().iter().map(|m| m.lan()).collect::<Vec<_>>()}));
        }
        p.legal().into_iter().map(|x| x.1).collect()
    });
    states += r.states;
    states += run_families(ctx, &[fcastle(false), fep(false)], if quick { 7 } else { 1 }, |p, l| check_offer_legal(ctx, &book, p, l, "special-rule family"));

    let (p0, s0) = expected.values().next().unwrap();
    ctx.sample(json!({"position": p0.fen(), "recorded_moves": s0.iter().map(|m| m.lan()).collect::<Vec<_>>()}));
    let sp = &expected[&identity(&Pos::startpos())];
    ctx.sample(json!({"position": sp.0.fen(), "recorded_moves": sp.1.iter().map(|m| m.lan()).collect::<Vec<_>>(), "checked": "lookup returns exactly this set"}));
    finish(
        ctx,
        states,
        plies_total + ctx.get("lookups"),
        ctx.get("book_position_lookups") + ctx.get("lookups"),
        ctx.no_caps(),
        "complete: every game of every file in /repo/book read by an independent PGN reader (games delimited by tag sections and result markers) and SAN reader (unique match required), first ten plies; for every position (identity: placement, side, rights, en-passant capture availability) the embedded book must return exactly the set of moves played there, also when a dead en-passant target is dropped and with four other settings of the move counters (another history); every castling-rights / side / en-passant variant of every book position, every position within depth 5 (thorough 6) of the start position and the castling / en-passant families: the book offers nothing or only legal moves, and nothing for positions that are not book positions",
        &["reference model (oracle crate): PGN reader, SAN reader, move generator"],
    )
}
